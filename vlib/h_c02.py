"""Helpers of check C02 (rules m, n, o).

* scenario execution: a statement-level abstract execution of ONE function under the assumption "parameter P is a
  ConjunctiveGraph/Dataset object whose .store is self.store".  Tests on P are folded in three-valued logic, everything
  else forks.  Reports the `return` statements that can hand P itself back.
* direct iteration sites of an expression (for / comprehension / yield from / list(), set(), sorted() ... / *x).
* existence tests: calls that (through local helper functions) consult the registry of graphs of a dataset.
"""
from __future__ import annotations

import ast
from typing import Callable, Iterator, Optional

from .core import AnalysisError, Module, norm, own_nodes

# --------------------------------------------------------------------------- scenario execution

State = frozenset  # names that hold the scenario object on this path


class Scenario:
    """P is a dataset object (ConjunctiveGraph or one of its subclasses) that shares self's store."""

    def __init__(self, fn: ast.FunctionDef, param: str, self_name: str,
                 class_verdict: Callable[[str], Optional[bool]], store_attr: str = "store"):
        self.fn = fn
        self.self_name = self_name
        self.class_verdict = class_verdict  # class name -> True (scenario object is an instance) / False / None (unknown)
        self.store_attr = store_attr
        self.hits: list[ast.Return] = []
        self.loop_exits: list[set] = []
        out = self.block(fn.body, {State([param])})
        del out

    # -- three-valued evaluation of a test
    def holds(self, e: ast.expr, st: State) -> bool:
        return isinstance(e, ast.Name) and e.id in st

    def ev(self, e: ast.expr, st: State) -> Optional[bool]:
        if isinstance(e, ast.UnaryOp) and isinstance(e.op, ast.Not):
            v = self.ev(e.operand, st)
            return None if v is None else (not v)
        if isinstance(e, ast.BoolOp):
            vals = [self.ev(v, st) for v in e.values]
            if isinstance(e.op, ast.And):
                return False if any(v is False for v in vals) else (True if all(v is True for v in vals) else None)
            return True if any(v is True for v in vals) else (False if all(v is False for v in vals) else None)
        if isinstance(e, ast.Compare) and len(e.ops) == 1:
            l, r, op = e.left, e.comparators[0], e.ops[0]
            same = isinstance(op, (ast.Is, ast.Eq))
            diff = isinstance(op, (ast.IsNot, ast.NotEq))
            if same or diff:
                for a, b in ((l, r), (r, l)):
                    if self.holds(a, st) and isinstance(b, ast.Constant) and b.value is None:
                        return diff  # the scenario object is not None
                    if (isinstance(a, ast.Attribute) and a.attr == self.store_attr and self.holds(a.value, st)
                            and isinstance(b, ast.Attribute) and b.attr == self.store_attr
                            and isinstance(b.value, ast.Name) and b.value.id == self.self_name):
                        return same  # it shares self's store
            return None
        if isinstance(e, ast.Call) and isinstance(e.func, ast.Name) and e.func.id == "isinstance" and len(e.args) == 2 and self.holds(e.args[0], st):
            spec = e.args[1]
            names = []
            for x in (spec.elts if isinstance(spec, ast.Tuple) else [spec]):
                if isinstance(x, ast.Name):
                    names.append(x.id)
                elif isinstance(x, ast.Attribute):
                    names.append(x.attr)
                else:
                    return None
            vs = [self.class_verdict(n) for n in names]
            if any(v is True for v in vs):
                return True
            if vs and all(v is False for v in vs):
                return False
            return None
        if isinstance(e, ast.Constant):
            return bool(e.value)
        return None

    # -- values an expression may evaluate to (only the shapes that can pass the object through)
    def values(self, e: ast.expr, st: State) -> Iterator[ast.expr]:
        if isinstance(e, ast.IfExp):
            v = self.ev(e.test, st)
            if v is not False:
                yield from self.values(e.body, st)
            if v is not True:
                yield from self.values(e.orelse, st)
        elif isinstance(e, ast.BoolOp):
            for x in e.values:
                yield from self.values(x, st)
        elif isinstance(e, ast.NamedExpr):
            yield from self.values(e.value, st)
        else:
            yield e

    def may_be_object(self, e: ast.expr, st: State) -> bool:
        return any(self.holds(v, st) for v in self.values(e, st))

    # -- statements
    def assign(self, targets: list[ast.expr], value: Optional[ast.expr], st: State) -> State:
        names = set()
        for t in targets:
            for n in ast.walk(t):
                if isinstance(n, ast.Name):
                    names.add(n.id)
        keep = value is not None and len(targets) == 1 and isinstance(targets[0], ast.Name) and self.may_be_object(value, st)
        if keep:
            return State(set(st) | names)
        return State(set(st) - names)

    def block(self, stmts: list[ast.stmt], states: set) -> set:
        for s in stmts:
            if not states:
                break
            nxt: set = set()
            for st in states:
                nxt |= self.stmt(s, st)
            states = nxt
        return states

    def stmt(self, s: ast.stmt, st: State) -> set:
        if isinstance(s, ast.Return):
            if s.value is not None and self.may_be_object(s.value, st) and s not in self.hits:
                self.hits.append(s)
            return set()
        if isinstance(s, ast.Raise):
            return set()
        if isinstance(s, ast.If):
            v = self.ev(s.test, st)
            out: set = set()
            if v is not False:
                out |= self.block(s.body, {st})
            if v is not True:
                out |= self.block(s.orelse, {st})
            return out
        if isinstance(s, ast.Assign):
            return {self.assign(s.targets, s.value, st)}
        if isinstance(s, ast.AnnAssign):
            return {self.assign([s.target], s.value, st)}
        if isinstance(s, ast.AugAssign):
            return {self.assign([s.target], None, st)}
        if isinstance(s, ast.Delete):
            return {self.assign(s.targets, None, st)}
        if isinstance(s, ast.Assert):
            return set() if self.ev(s.test, st) is False else {st}
        if isinstance(s, (ast.Expr, ast.Pass, ast.Import, ast.ImportFrom, ast.Global, ast.Nonlocal, ast.FunctionDef, ast.AsyncFunctionDef, ast.ClassDef)):
            return {st}
        if isinstance(s, (ast.For, ast.AsyncFor, ast.While)):
            self.loop_exits.append(set())
            entry = {st}
            if isinstance(s, (ast.For, ast.AsyncFor)):
                entry = {self.assign([s.target], None, st)}
            body = self.block(s.body, entry)
            # a second round so that facts established by the first iteration are seen by the tests of the next
            body |= self.block(s.body, set(body))
            exits = self.loop_exits.pop()
            return self.block(s.orelse, {st} | body) | exits
        if isinstance(s, (ast.Break, ast.Continue)):
            if not self.loop_exits:
                raise AnalysisError("break/continue outside a loop in %s" % self.fn.name)
            self.loop_exits[-1].add(st)
            return set()
        if isinstance(s, (ast.With, ast.AsyncWith)):
            cur = st
            for it in s.items:
                if it.optional_vars is not None:
                    cur = self.assign([it.optional_vars], None, cur)
            return self.block(s.body, {cur})
        if isinstance(s, ast.Try):
            body = self.block(s.body, {st})
            out = self.block(s.orelse, set(body)) if s.orelse else set(body)
            for h in s.handlers:
                # the exception may have been raised anywhere in the body
                start = {st} | body
                if h.name:
                    start = {self.assign([ast.Name(id=h.name, ctx=ast.Store())], None, x) for x in start}
                out |= self.block(h.body, start)
            if s.finalbody:
                out = self.block(s.finalbody, out)
            return out
        raise AnalysisError("scenario execution of %s: unmodelled statement %s" % (self.fn.name, type(s).__name__))


def graph_params(fn: ast.FunctionDef, markers: tuple[str, ...]) -> list[str]:
    """Parameters (other than the receiver) whose annotation mentions one of `markers` as a whole word."""
    import re

    out = []
    a = fn.args
    allp = list(a.posonlyargs) + list(a.args) + list(a.kwonlyargs)
    for p in allp[1:]:
        if p.annotation is None:
            continue
        words = set(re.findall(r"[A-Za-z_][A-Za-z_0-9]*", norm(p.annotation)))
        if words & set(markers):
            out.append(p.arg)
    return out


def receiver_name(fn: ast.FunctionDef) -> Optional[str]:
    a = fn.args
    allp = list(a.posonlyargs) + list(a.args)
    return allp[0].arg if allp else None


# --------------------------------------------------------------------------- iteration sites

# builtins that iterate their (first) positional argument
ITERATING_BUILTINS = {"list", "set", "sorted", "tuple", "frozenset", "iter", "enumerate", "reversed", "sum", "min", "max",
                      "any", "all", "dict", "next"}
# builtins that iterate every positional argument after the first / all of them
ITERATING_ALL_ARGS = {"zip"}
ITERATING_TAIL_ARGS = {"map", "filter"}


def iterated_exprs(fn: ast.AST) -> Iterator[tuple[ast.expr, ast.AST, str]]:
    """(expression, owner node, kind) for every expression whose __iter__ is invoked in fn (nested defs included)."""
    for n in own_nodes(fn, include_nested=True):
        if isinstance(n, (ast.For, ast.AsyncFor)):
            yield n.iter, n, "for"
        elif isinstance(n, ast.comprehension):
            yield n.iter, n, "comprehension"
        elif isinstance(n, ast.YieldFrom):
            yield n.value, n, "yield from"
        elif isinstance(n, ast.Starred) and isinstance(getattr(n, "ctx", None), ast.Load):
            yield n.value, n, "*unpacking"
        elif isinstance(n, ast.Call) and isinstance(n.func, ast.Name):
            if n.func.id in ITERATING_BUILTINS and n.args:
                yield n.args[0], n, n.func.id + "()"
            elif n.func.id in ITERATING_ALL_ARGS:
                for a in n.args:
                    yield a, n, n.func.id + "()"
            elif n.func.id in ITERATING_TAIL_ARGS:
                for a in n.args[1:]:
                    yield a, n, n.func.id + "()"
        elif isinstance(n, ast.Assign) and any(isinstance(t, (ast.Tuple, ast.List)) for t in n.targets):
            yield n.value, n, "unpacking"


def attr_of_receiver(e: ast.AST, recv: Optional[str], attr: str) -> bool:
    return isinstance(e, ast.Attribute) and e.attr == attr and isinstance(e.value, ast.Name) and e.value.id == recv


def aliases_of(fn: ast.AST, is_source: Callable[[ast.AST], bool]) -> set[str]:
    """Local names assigned (anywhere in fn, nested defs included: closures read them) from an expression accepted by is_source,
    closed under copies name = name."""
    out: set[str] = set()
    changed = True
    while changed:
        changed = False
        for n in own_nodes(fn, include_nested=True):
            tgt = val = None
            if isinstance(n, ast.Assign) and len(n.targets) == 1:
                tgt, val = n.targets[0], n.value
            elif isinstance(n, ast.AnnAssign):
                tgt, val = n.target, n.value
            elif isinstance(n, ast.NamedExpr):
                tgt, val = n.target, n.value
            if isinstance(tgt, ast.Name) and val is not None and tgt.id not in out:
                if is_source(val) or (isinstance(val, ast.Name) and val.id in out):
                    out.add(tgt.id)
                    changed = True
    return out


# --------------------------------------------------------------------------- existence tests

def guard_conjuncts(mod: Module, node: ast.AST, fn: ast.AST) -> list[ast.expr]:
    """The conditions that all hold where `node` (an expression inside a test) decides: the conjuncts of the test it belongs to
    and of every enclosing `if`/`while`/ternary on whose true arm that test sits."""
    out: list[ast.expr] = []

    def flat(t: ast.expr) -> None:
        if isinstance(t, ast.BoolOp) and isinstance(t.op, ast.And):
            for v in t.values:
                flat(v)
        else:
            out.append(t)

    child: ast.AST = node
    for p in mod.parents(node):
        if isinstance(p, (ast.If, ast.While, ast.IfExp)):
            in_test = child is p.test
            body = p.body if isinstance(p.body, list) else [p.body]
            if in_test or any(child is b for b in body):
                flat(p.test)
        elif isinstance(p, ast.Assert) and child is p.test:
            flat(p.test)
        elif isinstance(p, ast.comprehension) and any(child is i for i in p.ifs):
            for i in p.ifs:
                flat(i)
        if p is fn:
            break
        child = p
    return out


def consults_registry(mod: Module, e: ast.AST, fn: ast.AST, registry_methods: set[str], _depth: int = 0, _seen: Optional[set] = None) -> Optional[str]:
    """e contains a call of one of the registry methods (x.contexts(), x.graphs(), x.get_graph(n), ...), directly or inside a
    function it calls that is defined in the same module (nested helper, module function, method of the same class reached
    through the receiver).  Returns the text of the registry call or None."""
    seen = _seen if _seen is not None else set()
    for n in ast.walk(e):
        if not isinstance(n, ast.Call):
            continue
        if isinstance(n.func, ast.Attribute) and n.func.attr in registry_methods:
            return norm(n)[:80]
        if _depth >= 3:
            continue
        target = None
        scope = mod.scope.get(id(fn), "")
        parts = scope.split(".") if scope else []
        if isinstance(n.func, ast.Name):
            # every function the name can evaluate to here: the innermost definition of that name visible from fn (nested in fn, in an enclosing
            # def, at module level), or - a local - what it was bound to: a def, functools.partial(def, ..), a lambda (callables_of)
            cands = callables_of(mod, n.func, fn) if isinstance(fn, (ast.FunctionDef, ast.AsyncFunctionDef)) else None
            if cands:
                whys = []
                for d in cands:
                    if id(d) in seen:
                        whys.append(None)
                        continue
                    seen.add(id(d))
                    r = None
                    if isinstance(d, ast.Lambda):
                        r = consults_registry(mod, d.body, fn, registry_methods, _depth + 1, seen)
                    else:
                        for st in d.body:  # type: ignore[attr-defined]
                            r = consults_registry(mod, st, d, registry_methods, _depth + 1, seen)
                            if r:
                                break
                    whys.append(r)
                if whys and all(whys):
                    return "%s -> %s" % (norm(n.func), whys[0])
        elif isinstance(n.func, ast.Attribute) and isinstance(n.func.value, ast.Name):
            # receiver.method(...) inside a method of a class of this module
            for k in range(len(parts) - 1, 0, -1):
                if isinstance(mod.defs.get(".".join(parts[:k])), ast.ClassDef):
                    meth = mod.defs.get(".".join(parts[:k + 1]))
                    d = mod.defs.get(".".join(parts[:k] + [n.func.attr]))
                    if (isinstance(meth, (ast.FunctionDef, ast.AsyncFunctionDef)) and receiver_name(meth) == n.func.value.id
                            and isinstance(d, (ast.FunctionDef, ast.AsyncFunctionDef))):
                        target = d
                    break
        if target is not None and id(target) not in seen:
            seen.add(id(target))
            for st in target.body:
                r = consults_registry(mod, st, target, registry_methods, _depth + 1, seen)
                if r:
                    return "%s -> %s" % (norm(n.func), r)
    return None


def both_arms_raise(mod: Module, ifn: ast.If) -> bool:
    """`if t: ...; raise A` whose alternative (else arm, or the statement that follows the `if`) raises as well: the test cannot
    change what the caller observes beyond the error reported."""
    if not ifn.body or not isinstance(ifn.body[-1], ast.Raise):
        return False
    if ifn.orelse:
        return isinstance(ifn.orelse[-1], ast.Raise)
    parent = mod.parent.get(id(ifn))
    for field in ("body", "orelse", "finalbody"):
        blk = getattr(parent, field, None)
        if isinstance(blk, list) and any(x is ifn for x in blk):
            i = [k for k, x in enumerate(blk) if x is ifn][0]
            return i + 1 < len(blk) and isinstance(blk[i + 1], ast.Raise)
    return False


# =========================================================================== rules p - t (third batch)

# --------------------------------------------------------------------------- p: what a yielded element depends on

def _target_names(t: ast.AST) -> set[str]:
    return {n.id for n in ast.walk(t) if isinstance(n, ast.Name)}


def mentions(e: ast.AST, names: set[str]) -> bool:
    return any(isinstance(n, ast.Name) and n.id in names for n in ast.walk(e))


def plainly_derived(fn: ast.AST, seeds: set[str]) -> set[str]:
    """Names that hold (a part of / a function of) one of `seeds` through plain assignment: x = f(seed), (a, b) = seed,
    x += seed, x := seed - closed transitively.  Loop and comprehension targets are NOT included: an element drawn from an
    enumeration is a different thing from the selector the enumeration was given."""
    out = set(seeds)
    changed = True
    while changed:
        changed = False
        for n in own_nodes(fn, include_nested=True):
            tgts: list[ast.AST] = []
            val = None
            if isinstance(n, ast.Assign):
                tgts, val = list(n.targets), n.value
            elif isinstance(n, (ast.AnnAssign, ast.AugAssign, ast.NamedExpr)):
                tgts, val = [n.target], n.value
            if val is None or not mentions(val, out):
                continue
            new = set()
            for t in tgts:
                new |= _target_names(t)
            if not new <= out:
                out |= new
                changed = True
    return out


def yield_dependence(mod: Module, fn: ast.AST, y: ast.AST, names: set[str]) -> Optional[str]:
    """Why the element produced at `y` is restricted by the value of one of `names`: it is computed from it, it is drawn from an
    enumeration (enclosing for / comprehension) whose iterable received it, or it is produced under a test of it.  None if
    nothing of the kind encloses y."""
    val = getattr(y, "value", None)
    if val is not None and mentions(val, names):
        return "computed from it"
    for p in mod.parents(y):
        if isinstance(p, (ast.For, ast.AsyncFor)) and mentions(p.iter, names):
            return "drawn from %s" % norm(p.iter)[:60]
        if isinstance(p, (ast.ListComp, ast.SetComp, ast.GeneratorExp, ast.DictComp)):
            for g in p.generators:
                if mentions(g.iter, names) or any(mentions(i, names) for i in g.ifs):
                    return "drawn from %s" % norm(g.iter)[:60]
        if isinstance(p, (ast.If, ast.While, ast.IfExp)) and mentions(p.test, names):
            return "under the test %s" % norm(p.test)[:60]
        if p is fn:
            break
    return None


# --------------------------------------------------------------------------- q: a graph NAME reaching the store

class SinkScenario(Scenario):
    """Scenario execution that also records the calls accepted by `is_sink` which receive the scenario object as an argument."""

    def __init__(self, fn: ast.FunctionDef, param: str, self_name: str,
                 class_verdict: Callable[[str], Optional[bool]], is_sink: Callable[[ast.Call], bool]):
        self.is_sink = is_sink
        self.sink_hits: list[ast.Call] = []
        super().__init__(fn, param, self_name, class_verdict)

    def _own_exprs(self, s: ast.stmt) -> Iterator[ast.AST]:
        for _f, v in ast.iter_fields(s):
            vs = v if isinstance(v, list) else [v]
            for x in vs:
                if isinstance(x, ast.stmt) or isinstance(x, ast.ExceptHandler) or isinstance(x, getattr(ast, "match_case", ())):
                    continue
                if isinstance(x, ast.withitem):
                    yield x.context_expr
                elif isinstance(x, ast.AST):
                    yield x

    def stmt(self, s: ast.stmt, st: State) -> set:
        if not isinstance(s, (ast.FunctionDef, ast.AsyncFunctionDef, ast.ClassDef)):
            for e in self._own_exprs(s):
                for c in ast.walk(e):
                    if isinstance(c, ast.Call) and self.is_sink(c):
                        args = list(c.args) + [k.value for k in c.keywords]
                        if any(self.may_be_object(a, st) for a in args) and not any(c is h for h in self.sink_hits):
                            self.sink_hits.append(c)
        return super().stmt(s, st)


def is_store_call_of(recv: str, store_attr: str = "store") -> Callable[[ast.Call], bool]:
    """<recv>.<store_attr>.<method>(...)"""
    def f(c: ast.Call) -> bool:
        fn = c.func
        return (isinstance(fn, ast.Attribute) and isinstance(fn.value, ast.Attribute) and fn.value.attr == store_attr
                and isinstance(fn.value.value, ast.Name) and fn.value.value.id == recv)
    return f


# --------------------------------------------------------------------------- r: graph views built directly on a dataset's store

def call_arg(c: ast.Call, pos: int, kw: str) -> Optional[ast.expr]:
    for k in c.keywords:
        if k.arg == kw:
            return k.value
    if len(c.args) > pos and not any(isinstance(a, ast.Starred) for a in c.args[:pos + 1]):
        return c.args[pos]
    return None


GRAPH_WRITERS = {"add", "addN", "parse", "__iadd__", "update", "set"}


def writes_through(fn: ast.AST, names: set[str]) -> list[ast.AST]:
    """Statements / calls of fn that add triples through one of the local names: n += ..., n.add(...), n.parse(...), ..."""
    out: list[ast.AST] = []
    for n in own_nodes(fn, include_nested=True):
        if isinstance(n, ast.AugAssign) and isinstance(n.op, ast.Add) and isinstance(n.target, ast.Name) and n.target.id in names:
            out.append(n)
        elif (isinstance(n, ast.Call) and isinstance(n.func, ast.Attribute) and n.func.attr in GRAPH_WRITERS
              and isinstance(n.func.value, ast.Name) and n.func.value.id in names):
            out.append(n)
    return out


# --------------------------------------------------------------------------- s/t: name-dispatched operation handlers

def name_dispatch(fn: ast.AST, known: Callable[[str], bool]) -> dict[str, str]:
    """{operation name: handler function name} from the arms `if <x>.name == "K": handler(...)` of fn."""
    out: dict[str, str] = {}
    for n in ast.walk(fn):
        if not (isinstance(n, ast.If) and isinstance(n.test, ast.Compare) and len(n.test.ops) == 1 and isinstance(n.test.ops[0], ast.Eq)):
            continue
        l, r = n.test.left, n.test.comparators[0]
        if isinstance(l, ast.Constant):
            l, r = r, l
        if not (isinstance(l, ast.Attribute) and l.attr == "name" and isinstance(r, ast.Constant) and isinstance(r.value, str)):
            continue
        for s in n.body:
            for c in ast.walk(s):
                if isinstance(c, ast.Call) and isinstance(c.func, ast.Name) and known(c.func.id):
                    out.setdefault(r.value, c.func.id)
    return out


def union_members(ann: Optional[ast.expr]) -> Optional[list[ast.expr]]:
    """The alternatives of an annotation that is a plain union (A | B | None, Optional[A], Union[A, B]) of names; None if the
    annotation is anything else (a container of graphs is not `a graph or a graph name`)."""
    if ann is None:
        return None
    if isinstance(ann, ast.Constant) and isinstance(ann.value, str):
        try:
            ann = ast.parse(ann.value, mode="eval").body
        except SyntaxError:
            return None
    if isinstance(ann, ast.BinOp) and isinstance(ann.op, ast.BitOr):
        l, r = union_members(ann.left), union_members(ann.right)
        return None if l is None or r is None else l + r
    if isinstance(ann, ast.Subscript):
        head = ann.value.attr if isinstance(ann.value, ast.Attribute) else getattr(ann.value, "id", None)
        if head not in ("Optional", "Union"):
            return None
        elts = ann.slice.elts if isinstance(ann.slice, ast.Tuple) else [ann.slice]
        out: list[ast.expr] = []
        for e in elts:
            m = union_members(e)
            if m is None:
                return None
            out += m
        return out
    if isinstance(ann, (ast.Name, ast.Attribute)) or (isinstance(ann, ast.Constant) and ann.value is None):
        return [ann]
    return None


def graph_or_name_params(fn: ast.FunctionDef, markers: tuple[str, ...]) -> list[str]:
    """Parameters (other than the receiver) annotated with a plain union one of whose alternatives is named in `markers`."""
    a = fn.args
    out = []
    for p in (list(a.posonlyargs) + list(a.args))[1:] + list(a.kwonlyargs):
        ms = union_members(p.annotation)
        if ms and any((m.attr if isinstance(m, ast.Attribute) else getattr(m, "id", None)) in markers for m in ms):
            out.append(p.arg)
    return out


# =========================================================================== rules e, f, i restated (sixth pass, DESIGN §14)
#
# The three rules below used to look for one spelling of a construct (a helper called *has_context*, a test whose text contains
# "context is not None", an assignment whose text contains "default_context").  They are stated here on what the clause is about:
#
# * GuardWalk        - a path-sensitive structured walk of ONE function over a handful of boolean atoms recognised in its tests
#                      (`context is None`, `c == req_ctx`, `len(contexts of t) == 0`, ...).  Every simple statement is visited with
#                      the set of valuations of those atoms under which it can be reached, so `a and (b or c)`, the same condition as
#                      nested ifs, as a guard clause (`if not ..: continue`) or De-Morganed are one and the same thing.
# * remove_scoping   - rule e on Memory.remove, by the role of the statements (what they un-link, what keys they delete).
# * CtxFilterInterp  - rule f: abstract execution of the store's triples() per pattern shape, following `yield from`/`for` into the
#                      private generators it delegates to; a yield is justified by a membership test that relates the yielded triple
#                      and the requested context through the store's state (directly or inside a predicate method of the class).
# * NullScenario     - rule i: nullness of the graph component the quad resolver returns under "called as add() calls it, 4-tuple".


def positional_params(fn: ast.AST) -> list[str]:
    a = fn.args  # type: ignore[attr-defined]
    return [x.arg for x in list(a.posonlyargs) + list(a.args)]


def bound_names(nodes) -> set[str]:
    """Names (re)bound anywhere inside the statement(s): assignment / loop / with / except / walrus / del targets."""
    out: set[str] = set()
    for node in (nodes if isinstance(nodes, list) else [nodes]):
        for n in ast.walk(node):
            if isinstance(n, ast.Name) and isinstance(n.ctx, (ast.Store, ast.Del)):
                out.add(n.id)
            elif isinstance(n, ast.ExceptHandler) and n.name:
                out.add(n.name)
    return out


def root_name(e: ast.AST) -> Optional[str]:
    """The name an attribute / subscript / call chain hangs from: self.a[b].c(d) -> self."""
    while True:
        if isinstance(e, ast.Attribute):
            e = e.value
        elif isinstance(e, ast.Subscript):
            e = e.value
        elif isinstance(e, ast.Call):
            e = e.func
        else:
            break
    return e.id if isinstance(e, ast.Name) else None


def is_none_const(e: ast.AST, none_names: frozenset = frozenset()) -> bool:
    return (isinstance(e, ast.Constant) and e.value is None) or (isinstance(e, ast.Name) and e.id in none_names)


def module_none_names(mod: Module) -> frozenset:
    """Module-level names bound to the constant None (ANY = None)."""
    out = set()
    for st in mod.tree.body:
        if isinstance(st, ast.Assign) and len(st.targets) == 1 and isinstance(st.targets[0], ast.Name) and is_none_const(st.value):
            out.add(st.targets[0].id)
        elif isinstance(st, ast.AnnAssign) and isinstance(st.target, ast.Name) and st.value is not None and is_none_const(st.value):
            out.add(st.target.id)
    return frozenset(out)


def reads_state_by(e: ast.AST, recv: str, keys: set[str]) -> list[ast.expr]:
    """The arguments / subscript keys named in `keys` with which `e` reads the receiver's state: self.m(k), self.A[k], self.A.get(k, d)."""
    out: list[ast.expr] = []
    for n in ast.walk(e):
        if isinstance(n, ast.Call) and root_name(n.func) == recv and isinstance(n.func, ast.Attribute):
            for a in list(n.args) + [k.value for k in n.keywords]:
                if isinstance(a, ast.Name) and a.id in keys:
                    out.append(a)
        elif isinstance(n, ast.Subscript) and root_name(n.value) == recv and isinstance(n.slice, ast.Name) and n.slice.id in keys:
            out.append(n.slice)
    return out


# --------------------------------------------------------------------------- path-sensitive walk over boolean atoms

class GuardWalk:
    """atom_of(expr) -> (key, positive, names) | None recognises an atomic condition (key: hashable; names: the local names its value
    depends on).  visit(stmt, valuations) is called for every simple statement with the valuations (frozensets of (key, bool)) under
    which it can be reached; an atom that was not decided on the way is absent from a valuation.  Rebinding a name forgets the atoms
    that depend on it; a loop body is walked with the atoms depending on anything the loop rebinds forgotten."""

    def __init__(self, atom_of: Callable[[ast.expr], Optional[tuple]], visit: Callable[[ast.stmt, set], None],
                 alias_of: Optional[Callable[[str], Optional[ast.expr]]] = None):
        self.atom_of = atom_of
        self.visit = visit
        # name -> the condition a flag variable stands for (`everywhere = context is None`), given only where the name has that one
        # definition and the condition reads nothing that is ever rebound
        self.alias_of = alias_of
        self.deps: dict = {}

    def ev(self, e: ast.expr, v: frozenset) -> list[tuple[frozenset, Optional[bool]]]:
        a = self.atom_of(e)
        if a is not None:
            key, pos, names = a
            self.deps[key] = frozenset(names)
            d = dict(v)
            if key in d:
                return [(v, d[key] == pos)]
            return [(frozenset(v | {(key, True)}), pos), (frozenset(v | {(key, False)}), not pos)]
        if isinstance(e, ast.Name) and self.alias_of is not None:
            cond = self.alias_of(e.id)
            if cond is not None and not (isinstance(cond, ast.Name) and cond.id == e.id):
                return self.ev(cond, v)
        if isinstance(e, ast.UnaryOp) and isinstance(e.op, ast.Not):
            return [(v1, None if r is None else (not r)) for v1, r in self.ev(e.operand, v)]
        if isinstance(e, ast.BoolOp):
            is_and = isinstance(e.op, ast.And)
            cur: list[tuple[frozenset, Optional[bool]]] = [(v, is_and)]
            for operand in e.values:
                nxt = []
                for v1, r1 in cur:
                    if r1 is (not is_and):  # decided: the remaining operands are not evaluated
                        nxt.append((v1, r1))
                        continue
                    for v2, r2 in self.ev(operand, v1):
                        if r2 is (not is_and):
                            r: Optional[bool] = not is_and
                        elif r1 is None or r2 is None:
                            r = None
                        else:
                            r = is_and
                        nxt.append((v2, r))
                cur = nxt
            return cur
        return [(v, None)]

    def split(self, test: ast.expr, vals: set) -> tuple[set, set]:
        t: set = set()
        f: set = set()
        for v in vals:
            for v1, r in self.ev(test, v):
                if r is not False:
                    t.add(v1)
                if r is not True:
                    f.add(v1)
        return t, f

    def kill(self, vals: set, names: set[str]) -> set:
        if not names:
            return set(vals)
        dead = {k for k, d in self.deps.items() if d & names}
        if not dead:
            return set(vals)
        return {frozenset(i for i in v if i[0] not in dead) for v in vals}

    def block(self, stmts: list, vals: set) -> set:
        for s in stmts:
            if not vals:
                break
            vals = self.stmt(s, vals)
        return vals

    def stmt(self, s: ast.stmt, vals: set) -> set:
        if isinstance(s, (ast.FunctionDef, ast.AsyncFunctionDef, ast.ClassDef)):
            return vals
        if isinstance(s, ast.If):
            t, f = self.split(s.test, vals)
            return self.block(s.body, t) | self.block(s.orelse, f)
        if isinstance(s, (ast.For, ast.AsyncFor, ast.While)):
            entry = self.kill(vals, bound_names(s))
            inside = self.split(s.test, entry)[0] if isinstance(s, ast.While) else entry
            self.block(s.body, inside)
            return entry | (self.block(s.orelse, set(entry)) if s.orelse else set())
        if isinstance(s, ast.Try) or type(s).__name__ == "TryStar":
            out = self.block(s.body, set(vals))
            hv = self.kill(vals, bound_names(s.body))
            if s.orelse:
                out = self.block(s.orelse, out)
            for h in s.handlers:
                out = out | self.block(h.body, self.kill(hv, {h.name} if h.name else set()))
            if s.finalbody:
                out = self.block(s.finalbody, out | hv)
            return out
        if isinstance(s, (ast.With, ast.AsyncWith)):
            return self.block(s.body, self.kill(vals, bound_names([i.optional_vars for i in s.items if i.optional_vars is not None])))
        if type(s).__name__ == "Match":
            out: set = set(vals)
            for c in s.cases:  # type: ignore[attr-defined]
                out |= self.block(c.body, self.kill(vals, bound_names(c.pattern)))
            return out
        self.visit(s, vals)
        if isinstance(s, (ast.Return, ast.Raise, ast.Continue, ast.Break)):
            return set()
        return self.kill(vals, bound_names(s))


def holds(v: frozenset, key) -> bool:
    return (key, True) in v


# --------------------------------------------------------------------------- e: what a scoped removal may un-link and delete

_LEN_EMPTY = {(ast.Eq, 0): True, (ast.NotEq, 0): False, (ast.Lt, 1): True, (ast.LtE, 0): True, (ast.Gt, 0): False, (ast.GtE, 1): False}
_SWAP = {ast.Lt: ast.Gt, ast.Gt: ast.Lt, ast.LtE: ast.GtE, ast.GtE: ast.LtE, ast.Eq: ast.Eq, ast.NotEq: ast.NotEq}


def _len_arg(e: ast.AST) -> Optional[ast.expr]:
    if isinstance(e, ast.Call) and isinstance(e.func, ast.Name) and e.func.id == "len" and len(e.args) == 1 and not e.keywords:
        return e.args[0]
    return None


def _len_compare(e: ast.AST) -> Optional[tuple[ast.expr, type, int]]:
    """len(E) <op> <int> (either way round) -> (E, op, int)"""
    if not (isinstance(e, ast.Compare) and len(e.ops) == 1):
        return None
    l, r, op = e.left, e.comparators[0], type(e.ops[0])
    if _len_arg(r) is not None and isinstance(l, ast.Constant):
        if op not in _SWAP:
            return None
        l, r, op = r, l, _SWAP[op]
    arg = _len_arg(l)
    if arg is None or not (isinstance(r, ast.Constant) and type(r.value) is int):
        return None
    return arg, op, r.value


def remove_scoping(mod: Module, fn: ast.FunctionDef, cls: ast.ClassDef) -> list[tuple[str, bool, str, ast.AST]]:
    """Rule e on the store's remove(pattern, context).  Roles, not names:

    * the requested context is the third positional parameter; its key is any local computed by a call that receives it;
    * the matched triples are what the loop over <receiver>.triples(...) binds first; `the contexts of the triple` is any expression
      that reads the receiver's state with that triple as argument / key (or a local assigned once from such an expression);
    * an EFFECT is a call statement rooted at the receiver or a local, a `del`, or an assignment to a subscript / attribute.

    (1) an effect that involves the triple and the variable of an inner loop (one context among those enumerated for the triple) is
        reached only where `context is None` or that variable equals the requested key;
    (2) a `del` keyed by a COMPONENT of the triple (an index entry) is reached only where the contexts of the triple are empty; a `del`
        keyed by the triple itself (its entry in a per-triple table) only there or where what remains equals the store's default
        entry (the attribute that per-triple look-ups fall back to), i.e. where dropping the entry changes nothing;
    (3) an effect that involves the triple and the constant None as key / argument (the union entry) is reached only where None is
        among the triple's contexts E and (`context is None` or len(E) == 1)."""
    ps = positional_params(fn)
    if len(ps) < 3:
        raise AnalysisError("%s: expected (receiver, pattern, context)" % fn.name)
    recv, ctxp = ps[0], ps[2]
    local = bound_names(fn.body) | set(ps) | {a.arg for a in fn.args.kwonlyargs}
    # the definitions of each local that is only ever bound by plain assignment (a name used in a test is resolved to what it was computed from:
    # a property that holds of every definition holds of the one that reaches the test)
    defs: dict[str, list[ast.expr]] = {}
    for n in own_nodes(fn):
        if isinstance(n, ast.Assign) and len(n.targets) == 1 and isinstance(n.targets[0], ast.Name):
            defs.setdefault(n.targets[0].id, []).append(n.value)
        elif isinstance(n, ast.AnnAssign) and isinstance(n.target, ast.Name) and n.value is not None:
            defs.setdefault(n.target.id, []).append(n.value)
    for n in own_nodes(fn):  # bound in another way as well (loop / with / unpacking / walrus / del / except): not resolvable
        other: set[str] = set()
        if isinstance(n, (ast.For, ast.AsyncFor)):
            other = bound_names(n.target)
        elif isinstance(n, ast.Assign):
            other = bound_names([t for t in n.targets if not isinstance(t, ast.Name)] + ([] if len(n.targets) == 1 else list(n.targets)))
        elif isinstance(n, (ast.AugAssign, ast.NamedExpr, ast.Delete, ast.With, ast.AsyncWith, ast.ExceptHandler, ast.comprehension)):
            other = bound_names(n.target if isinstance(n, (ast.AugAssign, ast.NamedExpr, ast.comprehension)) else
                                ([i.optional_vars for i in n.items if i.optional_vars is not None] if isinstance(n, (ast.With, ast.AsyncWith)) else
                                 (list(n.targets) if isinstance(n, ast.Delete) else [])))
            if isinstance(n, ast.ExceptHandler) and n.name:
                other.add(n.name)
        for x in other:
            defs.pop(x, None)
    for x in ps:
        defs.pop(x, None)
    # the key of the requested context: a local every definition of which is computed by a call from the context parameter - the parameter itself, an
    # attribute chain hanging from it (context.identifier), or a local that is computed so in turn, among the arguments: `key = self.m(context)` as
    # well as the body of m written out (`k = "{}:{}".format(context.identifier.__class__.__name__, context.identifier); key = k`) - or is the
    # constant None on a path where the context parameter is known to be None (the key of "no context")
    def _from_ctx(e: ast.expr, depth: int = 4, names: frozenset = frozenset()) -> bool:
        if isinstance(e, ast.Call):
            for a in list(e.args) + [kw.value for kw in e.keywords]:
                while isinstance(a, ast.Attribute):
                    a = a.value
                if isinstance(a, ast.Name) and (a.id == ctxp or _from_ctx(a, depth, names)):
                    return True
            return False
        if isinstance(e, ast.Name) and e.id in defs and depth and e.id not in names:
            return all(_from_ctx(d, depth - 1, names | {e.id}) for d in defs[e.id])
        return False

    none_defs_ok: dict[int, bool] = {}

    def _ctx_none_atom(e: ast.expr) -> Optional[tuple]:
        if isinstance(e, ast.Compare) and len(e.ops) == 1 and isinstance(e.ops[0], (ast.Is, ast.IsNot, ast.Eq, ast.NotEq)):
            for a, b in ((e.left, e.comparators[0]), (e.comparators[0], e.left)):
                if isinstance(a, ast.Name) and a.id == ctxp and is_none_const(b):
                    return ("ctx-none",), isinstance(e.ops[0], (ast.Is, ast.Eq)), {ctxp}
        return None

    def _visit_none_def(s: ast.stmt, vals: set) -> None:
        v = s.value if isinstance(s, (ast.Assign, ast.AnnAssign)) else None
        if v is not None and is_none_const(v):
            none_defs_ok[id(v)] = none_defs_ok.get(id(v), True) and bool(vals) and all(holds(x, ("ctx-none",)) for x in vals)

    if any(is_none_const(v) for vs in defs.values() for v in vs):
        GuardWalk(_ctx_none_atom, _visit_none_def).block(fn.body, {frozenset()})
    rc = {k for k, vs in defs.items() if any(_from_ctx(v) for v in vs) and all(_from_ctx(v) or (is_none_const(v) and none_defs_ok.get(id(v), False)) for v in vs)}
    # the attribute(s) a per-triple look-up falls back to: self.T.get(t, self.D)
    fallbacks = set()
    for n in ast.walk(cls):
        if isinstance(n, ast.Call) and isinstance(n.func, ast.Attribute) and n.func.attr == "get" and len(n.args) == 2:
            d = n.args[1]
            if isinstance(d, ast.Attribute) and isinstance(d.value, ast.Name):
                fallbacks.add(d.attr)

    def resolved(e: ast.expr, depth: int = 3) -> list[ast.expr]:
        """e and every expression a local mentioned in e may have been computed from"""
        out = [e]
        if depth:
            for n in ast.walk(e):
                if isinstance(n, ast.Name) and n.id in defs:
                    for d in defs[n.id]:
                        out += resolved(d, depth - 1)
        return out

    def computed_by(e: ast.expr, keys: set[str], depth: int = 3) -> bool:
        """e reads the receiver's state by one of `keys`, or mentions a local EVERY definition of which does"""
        if reads_state_by(e, recv, keys):
            return True
        if depth:
            for n in ast.walk(e):
                if isinstance(n, ast.Name) and isinstance(n.ctx, ast.Load) and n.id in defs and all(computed_by(d, keys, depth - 1) for d in defs[n.id]):
                    return True
        return False

    outer = []
    for n in own_nodes(fn):
        if isinstance(n, (ast.For, ast.AsyncFor)) and any(
                isinstance(c, ast.Call) and isinstance(c.func, ast.Attribute) and c.func.attr == "triples" and root_name(c.func) == recv
                for r in resolved(n.iter) for c in ast.walk(r)):
            outer.append(n)
    verdicts: list[tuple[str, bool, str, ast.AST]] = []
    if not outer:
        why = "no loop over %s.triples(...) in %s: the removal no longer walks the matching triples" % (recv, fn.name)
        return [("scoped", False, why, fn), ("indexes", False, why, fn), ("union", False, why, fn)]
    sites: dict[str, list[tuple[ast.AST, bool, str]]] = {"scoped": [], "indexes": [], "union": []}
    n_index_dels = 0
    for lp in outer:
        tgt = lp.target
        first = tgt.elts[0] if isinstance(tgt, (ast.Tuple, ast.List)) and tgt.elts else tgt
        if not isinstance(first, ast.Name):
            raise AnalysisError("%s: the loop over triples() does not bind the triple to a name" % fn.name)
        T = {first.id}
        for n in ast.walk(lp):
            if isinstance(n, ast.Assign) and len(n.targets) == 1 and isinstance(n.targets[0], ast.Name) and isinstance(n.value, ast.Name) and n.value.id in T:
                T.add(n.targets[0].id)
        comps = set()
        for n in ast.walk(lp):
            if isinstance(n, ast.Assign) and isinstance(n.value, ast.Name) and n.value.id in T:
                for t in n.targets:
                    if isinstance(t, (ast.Tuple, ast.List)):
                        comps |= bound_names(t)
        D = plainly_derived(lp, set(T))
        TT = triple_copies(lp, T, comps)  # the triple, or a tuple display of its components: a key <that>[i] is a component of the triple
        inner_vars = {n.target.id for n in ast.walk(lp) if n is not lp and isinstance(n, (ast.For, ast.AsyncFor)) and isinstance(n.target, ast.Name)}

        def ctxs_of_triple(e: ast.expr) -> bool:
            return computed_by(e, T)

        def atom_of(e: ast.expr) -> Optional[tuple]:
            if isinstance(e, ast.Compare) and len(e.ops) == 1:
                l, r, op = e.left, e.comparators[0], e.ops[0]
                if isinstance(op, (ast.Is, ast.IsNot, ast.Eq, ast.NotEq)):
                    for a, b in ((l, r), (r, l)):
                        if isinstance(a, ast.Name) and a.id == ctxp and is_none_const(b):
                            return ("ctx-none",), isinstance(op, (ast.Is, ast.Eq)), {ctxp}
                if isinstance(op, (ast.Eq, ast.NotEq)):
                    for a, b in ((l, r), (r, l)):
                        if isinstance(a, ast.Name) and a.id in inner_vars and isinstance(b, ast.Name) and b.id in rc:
                            return ("eq", a.id), isinstance(op, ast.Eq), {a.id, b.id}
                        if (isinstance(b, ast.Attribute) and isinstance(b.value, ast.Name) and b.value.id == recv and b.attr in fallbacks
                                and isinstance(a, ast.Name) and a.id in D):
                            return ("eq-default", a.id), isinstance(op, ast.Eq), {a.id}
                if isinstance(op, (ast.In, ast.NotIn)) and is_none_const(l) and ctxs_of_triple(r):
                    return ("none-in", norm(r)), isinstance(op, ast.In), {n.id for n in ast.walk(r) if isinstance(n, ast.Name)}
                lc = _len_compare(e)
                if lc is not None and ctxs_of_triple(lc[0]):
                    E, cop, k = lc
                    names = {n.id for n in ast.walk(E) if isinstance(n, ast.Name)}
                    if (cop, k) in _LEN_EMPTY:
                        return ("empty", norm(E)), _LEN_EMPTY[(cop, k)], names
                    if k == 1 and cop in (ast.Eq, ast.NotEq):
                        return ("single", norm(E)), cop is ast.Eq, names
                return None
            # truth value of the collection / of its length: non-empty
            E = _len_arg(e) or e
            if isinstance(E, (ast.Name, ast.Call, ast.Subscript, ast.Attribute)) and not isinstance(e, ast.Constant) and ctxs_of_triple(E) \
                    and not (isinstance(E, ast.Call) and isinstance(E.func, ast.Name)):
                return ("empty", norm(E)), False, {n.id for n in ast.walk(E) if isinstance(n, ast.Name)}
            return None

        def is_effect(s: ast.stmt) -> bool:
            if isinstance(s, ast.Delete):
                return True
            if isinstance(s, ast.Expr) and isinstance(s.value, ast.Call):
                r = root_name(s.value.func)
                return r is not None and (r == recv or r in local)
            if isinstance(s, ast.Assign):
                return any(isinstance(t, (ast.Subscript, ast.Attribute)) for t in s.targets)
            if isinstance(s, (ast.AugAssign, ast.AnnAssign)):
                return isinstance(s.target, (ast.Subscript, ast.Attribute))
            return False

        def keyed_by_none(s: ast.stmt) -> bool:
            for n in ast.walk(s):
                if isinstance(n, ast.Subscript) and is_none_const(n.slice):
                    return True
                if isinstance(n, ast.Call) and root_name(n.func) in ({recv} | local) and any(is_none_const(a) for a in list(n.args) + [k.value for k in n.keywords]):
                    return True
            return False

        def del_keys(s: ast.Delete) -> list[ast.expr]:
            out = []
            for t in s.targets:
                while isinstance(t, ast.Subscript):
                    out.append(t.slice)
                    t = t.value
            return out

        def visit(s: ast.stmt, vals: set) -> None:
            nonlocal n_index_dels
            if not is_effect(s) or not mentions(s, D):
                return
            # (1) one enumerated context among the triple's
            enclosing = [p.target.id for p in mod.parents(s) if isinstance(p, (ast.For, ast.AsyncFor)) and p is not lp and isinstance(p.target, ast.Name)
                         and any(q is lp for q in mod.parents(p))]
            for c in enclosing:
                if mentions(s, {c}):
                    bad = [v for v in vals if not (holds(v, ("ctx-none",)) or holds(v, ("eq", c)))]
                    sites["scoped"].append((s, not bad, "`%s` (context %s of the triple) is reached although a graph was given and %s is not known to be the requested one" % (norm(s)[:60], c, c)))
            # (2) deletions
            if isinstance(s, ast.Delete):
                keys = del_keys(s)
                by_comp = any((isinstance(k, ast.Name) and k.id in comps) or (isinstance(k, ast.Subscript) and isinstance(k.value, ast.Name) and k.value.id in TT) for k in keys)
                by_triple = any(isinstance(k, ast.Name) and k.id in T for k in keys)
                if by_comp:
                    n_index_dels += 1
                    bad = [v for v in vals if not any(k[0] == "empty" and b for k, b in v)]
                    sites["indexes"].append((s, not bad, "`%s` is reached where the triple may still have a context" % norm(s)[:60]))
                elif by_triple:
                    bad = [v for v in vals if not any(k[0] in ("empty", "eq-default") and b for k, b in v)]
                    sites["indexes"].append((s, not bad, "`%s` is reached where the triple may still have contexts that differ from the default entry" % norm(s)[:60]))
            # (3) the union / default entry
            if keyed_by_none(s):
                def fine(v: frozenset) -> bool:
                    for k, b in v:
                        if k[0] == "none-in" and b and (holds(v, ("ctx-none",)) or holds(v, ("single", k[1]))):
                            return True
                    return False
                bad = [v for v in vals if not fine(v)]
                sites["union"].append((s, not bad, "`%s` is reached under a condition that does not imply `None in E and (context is None or len(E) == 1)` for the triple's contexts E" % norm(s)[:60]))

        rebound = bound_names(fn.body)

        def alias_of(name: str) -> Optional[ast.expr]:
            ds = defs.get(name)
            if ds and len(ds) == 1 and isinstance(ds[0], (ast.Compare, ast.BoolOp, ast.UnaryOp)) and not any(
                    isinstance(n, ast.Name) and n.id in rebound for n in ast.walk(ds[0])) and not any(isinstance(n, ast.Call) for n in ast.walk(ds[0])):
                return ds[0]
            return None

        gw = GuardWalk(atom_of, visit, alias_of)
        gw.block(lp.body, {frozenset()})

    def verdict(kind: str, missing: str, need: bool = True) -> None:
        ss = sites[kind]
        bad = [x for x in ss if not x[1]]
        if bad:
            verdicts.append((kind, False, bad[0][2], bad[0][0]))
        elif not ss or not need:
            verdicts.append((kind, False, missing, fn))
        else:
            verdicts.append((kind, True, "%d site(s)" % len(ss), ss[0][0]))

    verdict("scoped", "no statement un-links the triple from one of its enumerated contexts: the per-context walk of the removal was not found")
    verdict("indexes", "no deletion keyed by the components of the removed triple was found", need=n_index_dels > 0)
    verdict("union", "no statement un-links the triple from the union entry (key None)")
    return verdicts


# --------------------------------------------------------------------------- f: every yielded triple passed the context filter

ROLES = ("S", "P", "O")


# --------------------------------------------------------------------------- a `match` that binds nothing, read as the if / elif chain it is
def _boolean_valued(e: ast.AST) -> bool:
    """e always evaluates to True or False (a comparison by identity / membership, a negation, and / or of such)"""
    if isinstance(e, ast.UnaryOp) and isinstance(e.op, ast.Not):
        return True
    if isinstance(e, ast.Compare):
        return all(isinstance(o, (ast.Is, ast.IsNot, ast.In, ast.NotIn)) for o in e.ops)
    if isinstance(e, ast.BoolOp):
        return all(_boolean_valued(v) for v in e.values)
    return isinstance(e, ast.Constant) and isinstance(e.value, bool)


def pattern_test(subject: ast.expr, pat: ast.AST) -> Optional[list[ast.expr]]:
    """The conjuncts under which `subject` matches the pattern `pat` ([] = always), or None where the pattern binds a name or
    destructures something that is not written out as a display in the subject."""
    if isinstance(pat, ast.MatchAs):
        return [] if pat.pattern is None and pat.name is None else None
    if isinstance(pat, ast.MatchSingleton):
        if isinstance(pat.value, bool) and _boolean_valued(subject):
            return [subject if pat.value else ast.UnaryOp(op=ast.Not(), operand=subject)]
        return [ast.Compare(left=subject, ops=[ast.Is()], comparators=[ast.Constant(value=pat.value)])]
    if isinstance(pat, ast.MatchValue):
        return [ast.Compare(left=subject, ops=[ast.Eq()], comparators=[pat.value])]
    if isinstance(pat, ast.MatchClass) and not pat.patterns and not pat.kwd_patterns:
        return [ast.Call(func=ast.Name(id="isinstance", ctx=ast.Load()), args=[subject, pat.cls], keywords=[])]
    if isinstance(pat, ast.MatchOr):
        alts = [pattern_test(subject, q) for q in pat.patterns]
        if any(a is None for a in alts):
            return None
        if any(not a for a in alts):
            return []
        return [ast.BoolOp(op=ast.Or(), values=[a[0] if len(a) == 1 else ast.BoolOp(op=ast.And(), values=a) for a in alts])]  # type: ignore[index,arg-type]
    if isinstance(pat, ast.MatchSequence) and isinstance(subject, (ast.Tuple, ast.List)) and not any(isinstance(q, ast.MatchStar) for q in pat.patterns) \
            and not any(isinstance(x, ast.Starred) for x in subject.elts):
        if len(pat.patterns) != len(subject.elts):
            return [ast.Constant(value=False)]
        out: list[ast.expr] = []
        for x, q in zip(subject.elts, pat.patterns):
            t = pattern_test(x, q)
            if t is None:
                return None
            out += t
        return out
    return None


def match_as_if(s: ast.AST) -> Optional[list[ast.stmt]]:
    """The statements a `match` stands for when none of its patterns binds a name: an if / elif / else chain over tests of the subject
    (a sequence pattern against a subject written as a tuple is the conjunction of the tests of its components).  None = not such a match."""
    if not isinstance(s, ast.Match):
        return None
    arms: list[tuple[list[ast.expr], list[ast.stmt]]] = []
    for c in s.cases:
        t = pattern_test(s.subject, c.pattern)
        if t is None:
            return None
        if c.guard is not None:
            t = t + [c.guard]
        arms.append((t, c.body))
        if not t:
            break
    chain: list[ast.stmt] = []
    for t, body in reversed(arms):
        if not t:
            chain = list(body)
            continue
        test = t[0] if len(t) == 1 else ast.BoolOp(op=ast.And(), values=t)
        node = ast.If(test=test, body=list(body), orelse=chain)
        ast.copy_location(node, s)
        for n in ast.walk(test):
            if not hasattr(n, "lineno"):
                ast.copy_location(n, s)
        chain = [node]
    return chain


def shapes() -> Iterator[dict[str, bool]]:
    import itertools

    for bits in itertools.product((True, False), repeat=3):
        yield dict(zip(ROLES, bits))


_SNAPSHOTS = ("list", "tuple", "set", "frozenset", "sorted", "iter")


def _is_empty_literal(e: ast.AST) -> bool:
    if isinstance(e, (ast.Tuple, ast.List, ast.Set)) and not e.elts:
        return True
    if isinstance(e, ast.Dict) and not e.keys:
        return True
    return isinstance(e, ast.Call) and isinstance(e.func, ast.Name) and e.func.id in ("set", "frozenset", "tuple", "list", "dict") and not e.args and not e.keywords


class YieldRec:
    def __init__(self, node: ast.AST, shape: str, where: str, ok: bool, why: str):
        self.node, self.shape, self.where, self.ok, self.why = node, shape, where, ok, why


class CtxFilterInterp:
    """Abstract execution of <cls>.<entry>(pattern, context) - the context-aware store's triples() - once per pattern shape.

    Tracked per path: which names are known (not) None (the components of the pattern, folded by shape, and what is passed on to a
    helper), which names hold the REQUESTED CONTEXT (the context parameter, or the result of a method of the class called with it
    alone: its key), which hold THE REQUESTED CONTEXT'S OWN TRIPLE SET (a table of the receiver subscripted / .get() by the requested
    context, possibly snapshotted), and which triple-valued names / (a, b, c) tuples have PASSED THE CONTEXT FILTER on this path.

    A test is a context filter for t when it is `t in C` with C read from the receiver's state by the requested context,
    `k in C` with k the requested context and C read from the receiver's state by t, or a call of a method of the class every
    `return` of which is such a test on its parameters (or False) - whatever the method is called; and / or / not / guard clauses /
    a flag variable are followed.  A yield is justified when its triple (the first element of the yielded tuple) has passed the
    filter, or is drawn from the requested context's own triple set.  `yield from self.g(...)`, `for x in self.g(...)` and
    `return self.g(...)` over a generator method g of the class continue the execution in g with what is known about the arguments."""

    LEAK = "yield is not guarded by the per-triple context filter for this triple: triples of other graphs leak into the requested graph"

    def __init__(self, mod: Module, cls: str, entry: str = "triples"):
        self.mod, self.cls = mod, cls
        self.methods = mod.methods(cls)
        if entry not in self.methods:
            raise AnalysisError("anchor vanished: %s:%s.%s" % (mod.rel, cls, entry))
        self.fn = self.methods[entry]
        ps = positional_params(self.fn)
        if len(ps) < 3:
            raise AnalysisError("%s.%s: expected (receiver, pattern, context)" % (cls, entry))
        self.recv, self.patp, self.ctxp = ps[0], ps[1], ps[2]
        self.none_names = module_none_names(mod)
        self.records: list[YieldRec] = []
        self.bound: dict[str, bool] = {}
        self.shape = ""
        self._pred: dict[int, list[tuple[str, str]]] = {}
        self._stack: list[int] = []
        self._where = [cls + "." + entry]

    # ---- environment
    @staticmethod
    def new_env() -> dict:
        return {"nn": {}, "rc": set(), "cs": set(), "passed": set(), "tup": {}, "pat": set(), "flags": {}, "dump": set()}

    @staticmethod
    def copy(env: dict) -> dict:
        return {"nn": dict(env["nn"]), "rc": set(env["rc"]), "cs": set(env["cs"]), "passed": set(env["passed"]), "tup": dict(env["tup"]),
                "pat": set(env["pat"]), "flags": dict(env["flags"]), "dump": set(env["dump"])}

    @staticmethod
    def merge(envs: list) -> Optional[dict]:
        envs = [e for e in envs if e is not None]
        if not envs:
            return None
        out = CtxFilterInterp.copy(envs[0])
        for e in envs[1:]:
            out["nn"] = {k: v for k, v in out["nn"].items() if e["nn"].get(k) is v}
            for f in ("rc", "cs", "passed", "pat", "dump"):
                out[f] &= e[f]
            out["tup"] = {k: v for k, v in out["tup"].items() if e["tup"].get(k) == v}
            out["flags"] = {k: v for k, v in out["flags"].items() if e["flags"].get(k) == v}
        return out

    @staticmethod
    def kill(env: dict, names: set[str]) -> dict:
        for n in names:
            env["nn"].pop(n, None)
            for f in ("rc", "cs", "passed", "pat", "dump"):
                env[f].discard(n)
            env["tup"].pop(n, None)
            env["flags"].pop(n, None)
        if names:
            env["passed"] = {k for k in env["passed"] if not (isinstance(k, tuple) and names & set(k))}
            env["tup"] = {a: t for a, t in env["tup"].items() if not (names & set(t))}
            env["flags"] = {a: ks for a, ks in env["flags"].items() if not any((k in names) or (isinstance(k, tuple) and names & set(k)) for k in ks)}
        return env

    # ---- values
    def keys_of(self, e: Optional[ast.AST], env: dict) -> list:
        if isinstance(e, ast.Name):
            return [e.id] + ([env["tup"][e.id]] if e.id in env["tup"] else [])
        if isinstance(e, ast.Tuple) and e.elts and all(isinstance(x, ast.Name) for x in e.elts):
            return [tuple(x.id for x in e.elts)]
        return []

    def is_passed(self, e: Optional[ast.AST], env: dict) -> bool:
        return any(k in env["passed"] for k in self.keys_of(e, env))

    def noneness(self, e: ast.AST, env: dict) -> Optional[bool]:
        if is_none_const(e, self.none_names):
            return True
        if isinstance(e, ast.Name):
            return env["nn"].get(e.id)
        if isinstance(e, (ast.Constant, ast.Tuple, ast.List, ast.Dict, ast.Set, ast.JoinedStr)):
            return False
        return None

    def direct_attr(self, e: ast.AST) -> bool:
        return isinstance(e, ast.Attribute) and isinstance(e.value, ast.Name) and e.value.id == self.recv

    def ctxset(self, e: ast.AST, env: dict) -> bool:
        """e evaluates to (a snapshot of) the requested context's own triple set"""
        while True:
            if isinstance(e, ast.Call) and isinstance(e.func, ast.Attribute) and e.func.attr == "copy" and not e.args and not e.keywords:
                e = e.func.value
            elif isinstance(e, ast.Call) and isinstance(e.func, ast.Name) and e.func.id in _SNAPSHOTS and len(e.args) == 1 and not e.keywords:
                e = e.args[0]
            else:
                break
        if isinstance(e, ast.Name):
            return e.id in env["cs"]
        if isinstance(e, ast.Subscript) and self.direct_attr(e.value) and isinstance(e.slice, ast.Name) and e.slice.id in env["rc"]:
            return True
        if (isinstance(e, ast.Call) and isinstance(e.func, ast.Attribute) and e.func.attr in ("get", "setdefault") and self.direct_attr(e.func.value)
                and e.args and isinstance(e.args[0], ast.Name) and e.args[0].id in env["rc"]
                and all(_is_empty_literal(a) or is_none_const(a) for a in e.args[1:])):
            return True
        if isinstance(e, ast.BoolOp) and isinstance(e.op, ast.Or) and self.ctxset(e.values[0], env) and all(_is_empty_literal(v) for v in e.values[1:]):
            return True
        return False

    # ---- methods of the class
    def method_call(self, e: ast.AST) -> Optional[ast.FunctionDef]:
        if (isinstance(e, ast.Call) and isinstance(e.func, ast.Attribute) and isinstance(e.func.value, ast.Name) and e.func.value.id == self.recv
                and e.func.attr in self.methods):
            return self.methods[e.func.attr]
        return None

    @staticmethod
    def is_generator(fn: ast.AST) -> bool:
        return any(isinstance(n, (ast.Yield, ast.YieldFrom)) for n in own_nodes(fn))

    @staticmethod
    def bind_args(call: ast.Call, fn: ast.FunctionDef) -> Optional[dict[str, ast.expr]]:
        if any(isinstance(a, ast.Starred) for a in call.args) or any(k.arg is None for k in call.keywords):
            return None
        ps = positional_params(fn)[1:]
        if isinstance(fn, ast.FunctionDef) and any(isinstance(d, ast.Name) and d.id == "staticmethod" for d in fn.decorator_list):
            ps = positional_params(fn)
        if len(call.args) > len(ps):
            return None
        out = dict(zip(ps, call.args))
        allowed = set(ps) | {a.arg for a in fn.args.kwonlyargs}
        for k in call.keywords:
            if k.arg not in allowed or k.arg in out:
                return None
            out[k.arg] = k.value
        return out

    def predicate_pairs(self, m: ast.FunctionDef) -> list[tuple[str, str]]:
        """(t, c): parameters of m such that every return of m is a context filter for t w.r.t. the context c (or False)."""
        if id(m) in self._pred:
            return self._pred[id(m)]
        self._pred[id(m)] = []  # a recursive predicate proves nothing
        out: list[tuple[str, str]] = []
        rets = [n for n in own_nodes(m) if isinstance(n, ast.Return)]
        ps = positional_params(m)[1:] + [a.arg for a in m.args.kwonlyargs]
        rebound = bound_names(m.body)
        if rets and not self.is_generator(m):
            for pt in ps:
                for pc in ps:
                    if pt == pc or pt in rebound or pc in rebound:
                        continue
                    env = self.new_env()
                    env["rc"].add(pc)
                    real = 0
                    good = True
                    for r in rets:
                        if r.value is not None and isinstance(r.value, ast.Constant) and r.value.value is False:
                            continue
                        if r.value is None or pt not in self.facts(r.value, env)[0]:
                            good = False
                            break
                        real += 1
                    if good and real:
                        out.append((pt, pc))
        self._pred[id(m)] = out
        return out

    # ---- tests
    def facts(self, t: ast.expr, env: dict) -> tuple[set, set]:
        """(keys that have passed the context filter where t is true, ... where t is false)"""
        if isinstance(t, ast.UnaryOp) and isinstance(t.op, ast.Not):
            a, b = self.facts(t.operand, env)
            return b, a
        if isinstance(t, ast.BoolOp):
            parts = [self.facts(v, env) for v in t.values]
            union_t = set().union(*[p[0] for p in parts])
            union_f = set().union(*[p[1] for p in parts])
            inter_t = set.intersection(*[set(p[0]) for p in parts])
            inter_f = set.intersection(*[set(p[1]) for p in parts])
            return (union_t, inter_f) if isinstance(t.op, ast.And) else (inter_t, union_f)
        if isinstance(t, ast.NamedExpr):
            return self.facts(t.value, env)
        if isinstance(t, ast.Name) and t.id in env["flags"]:
            return set(env["flags"][t.id]), set()
        if isinstance(t, ast.Compare) and len(t.ops) == 1 and isinstance(t.ops[0], (ast.In, ast.NotIn)):
            l, r = t.left, t.comparators[0]
            ks: list = []
            if self.keys_of(l, env) and (self.ctxset(r, env) or reads_state_by(r, self.recv, env["rc"])):
                ks = self.keys_of(l, env)
            elif isinstance(l, ast.Name) and l.id in env["rc"]:
                for n in ast.walk(r):
                    cands: list[ast.expr] = []
                    if isinstance(n, ast.Call) and isinstance(n.func, ast.Attribute) and root_name(n.func) == self.recv:
                        cands = list(n.args) + [k.value for k in n.keywords]
                    elif isinstance(n, ast.Subscript) and root_name(n.value) == self.recv:
                        cands = [n.slice]
                    for c in cands:
                        if not (isinstance(c, ast.Name) and c.id in env["rc"]):
                            ks += self.keys_of(c, env)
            if ks:
                return (set(ks), set()) if isinstance(t.ops[0], ast.In) else (set(), set(ks))
            return set(), set()
        m = self.method_call(t)
        if m is not None:
            b = self.bind_args(t, m)  # type: ignore[arg-type]
            if b:
                for pt, pc in self.predicate_pairs(m):
                    if pt in b and pc in b and isinstance(b[pc], ast.Name) and b[pc].id in env["rc"] and self.keys_of(b[pt], env):
                        return set(self.keys_of(b[pt], env)), set()
        return set(), set()

    def fold(self, t: ast.expr, env: dict) -> Optional[bool]:
        if isinstance(t, ast.UnaryOp) and isinstance(t.op, ast.Not):
            v = self.fold(t.operand, env)
            return None if v is None else (not v)
        if isinstance(t, ast.BoolOp):
            vals = [self.fold(v, env) for v in t.values]
            if isinstance(t.op, ast.And):
                return False if any(v is False for v in vals) else (True if all(v is True for v in vals) else None)
            return True if any(v is True for v in vals) else (False if all(v is False for v in vals) else None)
        if isinstance(t, ast.Compare) and len(t.ops) == 1 and isinstance(t.ops[0], (ast.Is, ast.IsNot, ast.Eq, ast.NotEq)):
            l, r = t.left, t.comparators[0]
            for a, b in ((l, r), (r, l)):
                if is_none_const(b, self.none_names) and not is_none_const(a, self.none_names):
                    nz = self.noneness(a, env)
                    if nz is None:
                        return None
                    return nz if isinstance(t.ops[0], (ast.Is, ast.Eq)) else (not nz)
        return None

    def refine(self, t: ast.expr, truth: bool, env: dict) -> None:
        """what a test that came out `truth` says about None-ness"""
        if isinstance(t, ast.UnaryOp) and isinstance(t.op, ast.Not):
            self.refine(t.operand, not truth, env)
        elif isinstance(t, ast.BoolOp):
            if (isinstance(t.op, ast.And) and truth) or (isinstance(t.op, ast.Or) and not truth):
                for v in t.values:
                    self.refine(v, truth, env)
        elif isinstance(t, ast.Compare) and len(t.ops) == 1 and isinstance(t.ops[0], (ast.Is, ast.IsNot, ast.Eq, ast.NotEq)):
            l, r = t.left, t.comparators[0]
            for a, b in ((l, r), (r, l)):
                if is_none_const(b, self.none_names) and isinstance(a, ast.Name) and a.id not in self.none_names:
                    # `a == None` may be overloaded; identity is what the stores use - both are read as a None test, as the old rule did
                    env["nn"][a.id] = truth if isinstance(t.ops[0], (ast.Is, ast.Eq)) else (not truth)

    # ---- execution
    def run_shape(self, bound: dict[str, bool]) -> int:
        self.bound = bound
        self.shape = "".join(r if bound[r] else "-" for r in ROLES)
        before = len(self.records)
        env = self.new_env()
        env["pat"].add(self.patp)
        env["rc"].add(self.ctxp)
        self._stack = [id(self.fn)]
        self._fns = [self.fn]
        self.block(self.fn.body, env)
        return len(self.records) - before

    def block(self, stmts: list, env: Optional[dict]) -> Optional[dict]:
        for s in stmts:
            if env is None:
                return None
            env = self.stmt(s, env)
        return env

    def record(self, node: ast.AST, ok: bool, why: str) -> None:
        self.records.append(YieldRec(node, self.shape, self._where[-1], ok, why))

    def do_yield(self, y: ast.Yield, env: dict) -> None:
        v = y.value
        first = v.elts[0] if isinstance(v, ast.Tuple) and v.elts else v
        if first is None or not self.is_passed(first, env):
            self.record(y, False, self.LEAK)
        elif isinstance(first, ast.Name) and first.id in env["dump"] and any(self.bound.values()):
            self.record(y, False, "per-context dump yields for a shape with bound positions")
        else:
            self.record(y, True, "context-filtered")

    def delegate(self, g: ast.FunctionDef, call: ast.Call, env: dict) -> list[YieldRec]:
        """the yields of the generator method g under what is known about the arguments of `call`"""
        saved, self.records = self.records, []
        b = self.bind_args(call, g)
        if b is None or id(g) in self._stack:
            self.record(call, False, "delegates to %s in a way that is not followed (%s): %s" % (g.name, "recursion" if b is not None else "*args/**kwargs", self.LEAK))
        else:
            e2 = self.new_env()
            for p, a in b.items():
                nz = self.noneness(a, env)
                if nz is not None:
                    e2["nn"][p] = nz
                if isinstance(a, ast.Name):
                    for f in ("rc", "cs", "pat", "dump"):
                        if a.id in env[f]:
                            e2[f].add(p)
                elif self.ctxset(a, env):
                    e2["cs"].add(p)
                if self.is_passed(a, env):
                    e2["passed"].add(p)
            ga = g.args
            pos = list(ga.posonlyargs) + list(ga.args)
            for p_, d in list(zip(pos[len(pos) - len(ga.defaults):], ga.defaults)) + [(p_, d) for p_, d in zip(ga.kwonlyargs, ga.kw_defaults) if d is not None]:
                if p_.arg not in b and is_none_const(d, self.none_names):
                    e2["nn"][p_.arg] = True
            self._stack.append(id(g))
            self._fns.append(g)
            self._where.append(self.cls + "." + g.name)
            self.block(g.body, e2)
            self._where.pop()
            self._fns.pop()
            self._stack.pop()
        recs, self.records = self.records, saved
        return recs

    def yield_from(self, node: ast.AST, it: ast.expr, env: dict) -> None:
        g = self.method_call(it)
        if g is not None and self.is_generator(g):
            self.records += self.delegate(g, it, env)  # type: ignore[arg-type]
        elif isinstance(it, ast.GeneratorExp):
            body: list[ast.stmt] = [ast.Expr(value=ast.Yield(value=it.elt))]
            for gen in reversed(it.generators):
                for cond in reversed(gen.ifs):
                    body = [ast.If(test=cond, body=body, orelse=[])]
                body = [ast.For(target=gen.target, iter=gen.iter, body=body, orelse=[])]
            for n in ast.walk(body[0]):
                if not hasattr(n, "lineno"):
                    ast.copy_location(n, it)
            # the synthetic yield is reported at the generator expression
            self._synthetic = getattr(self, "_synthetic", {})
            for n in ast.walk(body[0]):
                if isinstance(n, ast.Yield):
                    self._synthetic[id(n)] = node
            self.block(body, self.copy(env))
        elif _is_empty_literal(it) or (isinstance(it, ast.Call) and isinstance(it.func, ast.Name) and it.func.id == "iter" and len(it.args) == 1 and _is_empty_literal(it.args[0])):
            pass
        elif self.ctxset(it, env) and not any(self.bound.values()):
            self.record(node, True, "the requested context's own triple set")
        else:
            self.record(node, False, "elements of %s are passed on unfiltered: %s" % (norm(it)[:50], self.LEAK))

    def stmt(self, s: ast.stmt, env: dict) -> Optional[dict]:
        if isinstance(s, (ast.FunctionDef, ast.AsyncFunctionDef, ast.ClassDef, ast.Pass, ast.Import, ast.ImportFrom, ast.Global, ast.Nonlocal)):
            return env
        if isinstance(s, ast.Expr):
            v = s.value
            if isinstance(v, ast.Yield):
                self.do_yield(v, env)
            elif isinstance(v, ast.YieldFrom):
                self.yield_from(v, v.value, env)
            return env
        if isinstance(s, (ast.Raise, ast.Continue, ast.Break)):
            return None
        if isinstance(s, ast.Return):
            if s.value is not None:
                g = self.method_call(s.value)
                if g is not None and self.is_generator(g) and not self.is_generator(self._fns[-1]):
                    self.records += self.delegate(g, s.value, env)  # type: ignore[arg-type]
            return None
        if isinstance(s, (ast.Assign, ast.AnnAssign)):
            targets = s.targets if isinstance(s, ast.Assign) else [s.target]
            v = s.value
            if v is None:
                return env
            if isinstance(v, (ast.Yield, ast.YieldFrom)):
                if isinstance(v, ast.Yield):
                    self.do_yield(v, env)
                else:
                    self.yield_from(v, v.value, env)
                return self.kill(env, bound_names(targets))
            single = targets[0] if len(targets) == 1 else None
            new: dict = {}
            if isinstance(single, ast.Name):
                nz = self.noneness(v, env)
                if nz is not None:
                    new["nn"] = nz
                if isinstance(v, ast.Name):
                    for f in ("rc", "cs", "pat", "dump"):
                        if v.id in env[f]:
                            new[f] = True
                    if v.id in env["tup"]:
                        new["tup"] = env["tup"][v.id]
                    if v.id in env["flags"]:
                        new["flags"] = env["flags"][v.id]
                    if self.is_passed(v, env):
                        new["passed"] = True
                elif isinstance(v, ast.Tuple) and v.elts and all(isinstance(x, ast.Name) for x in v.elts):
                    new["tup"] = tuple(x.id for x in v.elts)
                    if self.is_passed(v, env):
                        new["passed"] = True
                elif self.ctxset(v, env):
                    new["cs"] = True
                elif (self.method_call(v) is not None and len(v.args) == 1 and not v.keywords and isinstance(v.args[0], ast.Name)  # type: ignore[attr-defined]
                      and v.args[0].id in env["rc"]):  # type: ignore[attr-defined]
                    new["rc"] = True  # the key under which the store files the requested context
                else:
                    fl = self.facts(v, env)[0]
                    if fl:
                        new["flags"] = frozenset(fl)
            self.kill(env, bound_names(targets))
            if isinstance(single, ast.Name):
                for f, val in new.items():
                    if f in ("rc", "cs", "pat", "dump", "passed"):
                        env[f].add(single.id)
                    else:
                        env[f][single.id] = val
            elif isinstance(single, (ast.Tuple, ast.List)) and isinstance(v, ast.Name) and v.id in env["pat"] and len(single.elts) == 3:
                for r, e in zip(ROLES, single.elts):
                    if isinstance(e, ast.Name):
                        env["nn"][e.id] = not self.bound[r]
            return env
        if isinstance(s, ast.If):
            f = self.fold(s.test, env)
            if f is True:
                return self.block(s.body, env)
            if f is False:
                return self.block(s.orelse, env)
            tk, fk = self.facts(s.test, env)
            et, ef = self.copy(env), self.copy(env)
            et["passed"] |= tk
            ef["passed"] |= fk
            self.refine(s.test, True, et)
            self.refine(s.test, False, ef)
            return self.merge([self.block(s.body, et), self.block(s.orelse, ef)])
        if isinstance(s, (ast.For, ast.AsyncFor)):
            base = self.kill(self.copy(env), bound_names(s.target) | bound_names(s.body))
            e2 = self.copy(base)
            tgt = s.target
            first = tgt.elts[0] if isinstance(tgt, (ast.Tuple, ast.List)) and tgt.elts else tgt
            g = self.method_call(s.iter)
            if isinstance(tgt, ast.Name) and self.ctxset(s.iter, env):
                e2["passed"].add(tgt.id)
                e2["dump"].add(tgt.id)
            elif g is not None and self.is_generator(g) and isinstance(first, ast.Name):
                recs = self.delegate(g, s.iter, env)  # type: ignore[arg-type]
                if recs and all(r.ok for r in recs):
                    self.records += recs
                    e2["passed"].add(first.id)
            self.block(s.body, e2)
            if s.orelse:
                return self.merge([self.copy(base), self.block(s.orelse, self.copy(base))])
            return base
        if isinstance(s, ast.While):
            base = self.kill(self.copy(env), bound_names(s.body))
            e2 = self.copy(base)
            e2["passed"] |= self.facts(s.test, e2)[0]
            self.block(s.body, e2)
            if s.orelse:
                return self.merge([self.copy(base), self.block(s.orelse, self.copy(base))])
            return base
        if isinstance(s, ast.Try) or type(s).__name__ == "TryStar":
            out = self.block(s.body, self.copy(env))
            if s.orelse and out is not None:
                out = self.block(s.orelse, out)
            hbase = self.kill(self.copy(env), bound_names(s.body))
            outs = [out]
            for h in s.handlers:
                outs.append(self.block(h.body, self.kill(self.copy(hbase), {h.name} if h.name else set())))
            res = self.merge(outs)
            if s.finalbody:
                res = self.block(s.finalbody, res if res is not None else hbase)
            return res
        if isinstance(s, (ast.With, ast.AsyncWith)):
            return self.block(s.body, self.kill(env, bound_names([i.optional_vars for i in s.items if i.optional_vars is not None])))
        if isinstance(s, ast.Match):
            chain = match_as_if(s)
            if chain is not None:
                return self.block(chain, env)
            # a match that binds names: any case may be the one taken (or none), with what it binds unknown
            captured = {getattr(n, "name", None) or getattr(n, "rest", None) for n in ast.walk(s) if isinstance(n, (ast.MatchAs, ast.MatchStar, ast.MatchMapping))} - {None}
            base = self.kill(self.copy(env), bound_names(s) | captured)
            return self.merge([self.copy(base)] + [self.block(c.body, self.copy(base)) for c in s.cases])
        # anything else: forget what it rebinds
        return self.kill(env, bound_names(s))

    def results(self) -> list[YieldRec]:
        """one record per (shape, yield): justified iff justified on every path / from every delegating call"""
        syn = getattr(self, "_synthetic", {})
        out: dict[tuple[str, int], YieldRec] = {}
        for r in self.records:
            node = syn.get(id(r.node), r.node)
            k = (r.shape, id(node))
            if k not in out:
                out[k] = YieldRec(node, r.shape, r.where, r.ok, r.why)
            elif not r.ok and out[k].ok:
                out[k].ok, out[k].why = False, r.why
        return list(out.values())


# --------------------------------------------------------------------------- i: the graph component a quad resolver hands back

class NullScenario:
    """Abstract execution of one function for the None-ness of its locals under a scenario: the parameters in `true_params` are
    true, the parameter `quad` is a 4-tuple (not None, len() == 4).  Values are 'none' / 'nn' (not None) / 'maybe'.  An expression
    that is not a local is 'nn' when its static type (mypy) is neither Optional nor Any, else 'maybe'.  `hits` are the returns whose
    component `index` may be None."""

    def __init__(self, fn: ast.FunctionDef, quad: Optional[str], true_params: set[str], index: int, type_of: Callable[[ast.AST], object],
                 property_returns: Optional[Callable[[str], list]] = None):
        self.fn, self.quad, self.true_params, self.index, self.type_of = fn, quad, true_params, index, type_of
        # attribute name -> the expressions the getters of that property (in the receiver's class and every subclass) return, [] if it is
        # not a property: an un-annotated property is `Any` to the type checker, what it returns is not
        self.property_returns = property_returns
        self.recv = receiver_name(fn)
        self._in_prop: set[str] = set()
        self.hits: list[tuple[ast.Return, str]] = []
        self.n_returns = 0
        st0: dict = {}
        if quad:
            st0[quad] = "nn"
        for p in true_params:
            st0[p] = "nn"
        self.block(fn.body, [st0])

    # -- values
    @staticmethod
    def join(a: str, b: str) -> str:
        return a if a == b else "maybe"

    def value(self, e: Optional[ast.expr], st: dict) -> str:
        if e is None:
            return "none"
        if isinstance(e, ast.Constant):
            return "none" if e.value is None else "nn"
        if isinstance(e, ast.Name):
            return st.get(e.id, "maybe")
        if isinstance(e, (ast.Tuple, ast.List, ast.Dict, ast.Set, ast.JoinedStr, ast.ListComp, ast.SetComp, ast.DictComp, ast.GeneratorExp, ast.Lambda, ast.Compare)):
            return "nn"
        if isinstance(e, ast.IfExp):
            out = None
            for truth, arm in ((True, e.body), (False, e.orelse)):
                for s2 in self.assume(e.test, truth, st):
                    v = self.value(arm, s2)
                    out = v if out is None else self.join(out, v)
            return out or "maybe"
        if isinstance(e, ast.BoolOp) and isinstance(e.op, ast.Or):
            # the result is a truthy operand (not None) or the last operand
            vs = [self.value(v, st) for v in e.values]
            return "nn" if vs[-1] == "nn" else ("none" if all(v == "none" for v in vs) else "maybe")
        if isinstance(e, ast.NamedExpr):
            return self.value(e.value, st)
        tf = self.type_of(e)
        if tf is not None and not getattr(tf, "optional", True) and not getattr(tf, "any", True) and getattr(tf, "items", None):
            return "nn"
        if (self.property_returns is not None and isinstance(e, ast.Attribute) and isinstance(e.value, ast.Name) and e.value.id == self.recv
                and e.attr not in self._in_prop):
            rets = self.property_returns(e.attr)
            if rets:
                self._in_prop.add(e.attr)
                try:
                    vs = {self.value(r, {}) for r in rets}
                finally:
                    self._in_prop.discard(e.attr)
                return "nn" if vs == {"nn"} else "maybe"
        return "maybe"

    # -- tests
    def assume(self, t: ast.expr, truth: bool, st: dict) -> list[dict]:
        """the states in which t can come out `truth` (refined), [] if it cannot"""
        if isinstance(t, ast.UnaryOp) and isinstance(t.op, ast.Not):
            return self.assume(t.operand, not truth, st)
        if isinstance(t, ast.BoolOp):
            conj = isinstance(t.op, ast.And)
            if conj == truth:  # all operands come out `truth`
                cur = [st]
                for v in t.values:
                    cur = [s2 for s1 in cur for s2 in self.assume(v, truth, s1)]
                return cur
            out: list[dict] = []  # the first i operands the other way, the next one `truth`
            cur = [st]
            for v in t.values:
                out += [s2 for s1 in cur for s2 in self.assume(v, truth, s1)]
                cur = [s2 for s1 in cur for s2 in self.assume(v, not truth, s1)]
            return out
        if isinstance(t, ast.Constant):
            return [st] if bool(t.value) == truth else []
        if isinstance(t, ast.Name):
            if t.id in self.true_params:
                return [st] if truth else []
            v = st.get(t.id, "maybe")
            if v == "none":
                return [] if truth else [st]
            if truth and v == "maybe":
                return [dict(st, **{t.id: "nn"})]
            return [st]
        if isinstance(t, ast.Compare) and len(t.ops) == 1:
            l, r, op = t.left, t.comparators[0], t.ops[0]
            if isinstance(op, (ast.Is, ast.IsNot, ast.Eq, ast.NotEq)):
                for a, b in ((l, r), (r, l)):
                    if is_none_const(b) and not is_none_const(a):
                        is_none = truth if isinstance(op, (ast.Is, ast.Eq)) else (not truth)
                        v = self.value(a, st)
                        if (v == "nn" and is_none) or (v == "none" and not is_none):
                            return []
                        if isinstance(a, ast.Name):
                            return [dict(st, **{a.id: "none" if is_none else "nn"})]
                        return [st]
                    if isinstance(b, ast.Constant) and isinstance(b.value, bool) and isinstance(a, ast.Name) and a.id in self.true_params:
                        same = b.value if isinstance(op, (ast.Is, ast.Eq)) else (not b.value)
                        return [st] if same == truth else []
            lc = _len_compare(t)
            if lc is not None and isinstance(lc[0], ast.Name) and lc[0].id == self.quad:
                _, cop, k = lc
                res = {ast.Eq: 4 == k, ast.NotEq: 4 != k, ast.Lt: 4 < k, ast.LtE: 4 <= k, ast.Gt: 4 > k, ast.GtE: 4 >= k}.get(cop)
                if res is not None:
                    return [st] if res == truth else []
        return [st]

    # -- statements
    def bind(self, target: ast.expr, value: Optional[ast.expr], st: dict) -> dict:
        st = dict(st)
        if isinstance(target, ast.Name):
            st[target.id] = self.value(value, st) if value is not None else "maybe"
            if isinstance(value, ast.Tuple) and len(value.elts) > self.index:
                st[(target.id, self.index)] = self.value(value.elts[self.index], st)
            else:
                st.pop((target.id, self.index), None)
        else:
            for n in bound_names(target):
                st[n] = "maybe"
                st.pop((n, self.index), None)
        return st

    def block(self, stmts: list, states: list[dict]) -> list[dict]:
        for s in stmts:
            if not states:
                break
            nxt: list[dict] = []
            for st in states:
                for o in self.stmt(s, st):
                    if o not in nxt:
                        nxt.append(o)
            states = nxt
        return states

    def stmt(self, s: ast.stmt, st: dict) -> list[dict]:
        if isinstance(s, ast.Return):
            self.n_returns += 1
            v = s.value
            comp = None
            if isinstance(v, ast.Tuple) and len(v.elts) > self.index:
                comp = self.value(v.elts[self.index], st)
            elif isinstance(v, ast.Name) and (v.id, self.index) in st:
                comp = st[(v.id, self.index)]
            if comp != "nn" and not any(h[0] is s for h in self.hits):
                self.hits.append((s, "component %d of `%s` %s" % (self.index, norm(s)[:60], "is None" if comp == "none" else "may be None" if comp else "is not tracked")))
            return []
        if isinstance(s, ast.Raise):
            return []
        if isinstance(s, ast.If):
            return self.block(s.body, self.assume(s.test, True, st)) + self.block(s.orelse, self.assume(s.test, False, st))
        if isinstance(s, ast.Assign):
            for t in s.targets:
                st = self.bind(t, s.value, st)
            return [st]
        if isinstance(s, ast.AnnAssign):
            return [self.bind(s.target, s.value, st)] if s.value is not None else [st]
        if isinstance(s, ast.Assert):
            return self.assume(s.test, True, st)
        if isinstance(s, (ast.For, ast.AsyncFor, ast.While)):
            entry = dict(st)
            for n in bound_names(s):
                entry[n] = "maybe"
                entry.pop((n, self.index), None)
            self.block(s.body, [entry])
            return self.block(s.orelse, [entry]) + [entry] if s.orelse else [entry]
        if isinstance(s, ast.Try) or type(s).__name__ == "TryStar":
            out = self.block(s.body, [st])
            if s.orelse:
                out = self.block(s.orelse, out)
            h0 = dict(st)
            for n in bound_names(s.body):
                h0[n] = "maybe"
                h0.pop((n, self.index), None)
            for h in s.handlers:
                out = out + self.block(h.body, [h0])
            if s.finalbody:
                out = self.block(s.finalbody, out)
            return out
        if isinstance(s, (ast.With, ast.AsyncWith)):
            st = dict(st)
            for n in bound_names([i.optional_vars for i in s.items if i.optional_vars is not None]):
                st[n] = "maybe"
            return self.block(s.body, [st])
        if isinstance(s, (ast.Continue, ast.Break)):
            return []
        st = dict(st)
        for n in bound_names(s):
            st[n] = "maybe"
            st.pop((n, self.index), None)
        return [st]


def quad_resolver(mod: Module, cls: str, entry: str) -> tuple[ast.FunctionDef, ast.Call, int]:
    """The method of `cls` by which `entry` (a public write method: add) turns its triple-or-quad argument into (s, p, o, graph): the
    call on the receiver whose result `entry` unpacks into four names, the last of which it hands to <receiver>.store.<entry>(...) as
    the context.  Returns (resolver, the call, index of the graph component)."""
    f = mod.func("%s.%s" % (cls, entry))
    recv = receiver_name(f)
    meths = mod.methods(cls)
    store_call = is_store_call_of(recv or "self")
    for n in own_nodes(f):
        if not (isinstance(n, ast.Assign) and len(n.targets) == 1 and isinstance(n.targets[0], (ast.Tuple, ast.List)) and isinstance(n.value, ast.Call)):
            continue
        c = n.value
        if not (isinstance(c.func, ast.Attribute) and isinstance(c.func.value, ast.Name) and c.func.value.id == recv and c.func.attr in meths):
            continue
        names = [e.id if isinstance(e, ast.Name) else None for e in n.targets[0].elts]
        for sc in own_nodes(f):
            if isinstance(sc, ast.Call) and store_call(sc) and sc.func.attr == entry:  # type: ignore[attr-defined]
                ctx = [k.value for k in sc.keywords if k.arg == "context"] + list(sc.args[1:2])
                if ctx and isinstance(ctx[0], ast.Name) and ctx[0].id in names:
                    return meths[c.func.attr], c, names.index(ctx[0].id)
    raise AnalysisError("%s.%s: the call that resolves the triple-or-quad argument into (s, p, o, graph) for the store was not found" % (cls, entry))


# =========================================================================== rules c, k, o, e restated (second round of refactorings, DESIGN §14.2)
#
# * context_key_function / returned_leaves / key_built_from_class_and_value - rule c: the function that computes the store's context key is
#   found by its role (the method of the class that the public add / remove / triples call with their context parameter alone); what it
#   hands back is followed through locals and through the functions it delegates to, and every key it can return is a string built from an
#   expression E and the class of E - however the string is spelt (h_c17.str_parts) and wherever the building lives.
# * registry_attrs / registry_drops / reached_only_where - rule k: the registry of graphs is the state that the public add_graph puts its
#   argument into; a statement of remove() that takes something out of it is reached only where <receiver>.graph_aware is false
#   (GuardWalk: and/or chains, De Morgan forms, nested ifs, guard clauses, flag variables are the same thing).
# * callables_of (consults_registry) - rule o: the callee of `f(...)` is every function the name f can evaluate to - a def, a local bound to
#   a def, to functools.partial(def, ...), to a lambda, to a conditional expression of those.
# * under_emptiness / arm_reached_only_when_false - rule o: the arm taken because a graph is empty is the body of `if not G:` as well as what
#   follows `if G: continue` / the else arm of `if G:`.
# * triple_copies - rule e: a tuple display of the components of the triple is the triple.


def _flat_assignments(fn: ast.AST, nested: bool = False) -> dict[str, list[ast.expr]]:
    """name -> the values plainly assigned to it in fn (x = v, x: T = v, x := v); a name that is also bound in another way (loop target,
    unpacking, with, except, augmented assignment, del) is left out: its value is not one of those expressions only"""
    defs: dict[str, list[ast.expr]] = {}
    other: set[str] = set()
    for n in own_nodes(fn, include_nested=nested):
        if isinstance(n, ast.Assign):
            for t in n.targets:
                if isinstance(t, ast.Name):
                    defs.setdefault(t.id, []).append(n.value)
                else:
                    other |= bound_names(t)
        elif isinstance(n, ast.AnnAssign):
            if isinstance(n.target, ast.Name) and n.value is not None:
                defs.setdefault(n.target.id, []).append(n.value)
        elif isinstance(n, ast.NamedExpr):
            defs.setdefault(n.target.id, []).append(n.value)
        elif isinstance(n, (ast.For, ast.AsyncFor, ast.comprehension, ast.AugAssign)):
            other |= bound_names(n.target)
        elif isinstance(n, (ast.With, ast.AsyncWith)):
            other |= bound_names([i.optional_vars for i in n.items if i.optional_vars is not None])
        elif isinstance(n, ast.Delete):
            other |= bound_names(list(n.targets))
        elif isinstance(n, ast.ExceptHandler) and n.name:
            other.add(n.name)
    for x in other:
        defs.pop(x, None)
    return defs


# --------------------------------------------------------------------------- c: the context key

def context_key_function(mod: Module, cls: str, entries: tuple[str, ...] = ("add", "remove", "triples")) -> ast.FunctionDef:
    """The method of `cls` that turns a context into the key the store files it under: the one method of the class that the public entry
    points call on the receiver with their context parameter (the third positional parameter of the Store API) as the only argument -
    directly, or inside a method of the class they hand the context on to."""
    meths = mod.methods(cls)

    def key_calls(f: ast.FunctionDef, ctxp: str, depth: int, seen: set) -> set[str]:
        recv = receiver_name(f)
        found: set[str] = set()
        if recv is None or ctxp in bound_names(f.body) or id(f) in seen:
            return found
        seen = seen | {id(f)}
        for c in own_nodes(f):
            if not (isinstance(c, ast.Call) and isinstance(c.func, ast.Attribute) and isinstance(c.func.value, ast.Name) and c.func.value.id == recv
                    and c.func.attr in meths and c.func.attr not in entries):
                continue
            args = list(c.args) + [k.value for k in c.keywords]
            if len(args) == 1 and isinstance(args[0], ast.Name) and args[0].id == ctxp:
                found.add(c.func.attr)
            elif depth:
                b = CtxFilterInterp.bind_args(c, meths[c.func.attr])
                for p_, a in (b or {}).items():
                    if isinstance(a, ast.Name) and a.id == ctxp:
                        found |= key_calls(meths[c.func.attr], p_, depth - 1, seen)
        return found

    found: set[str] = set()
    for en in entries:
        if en not in meths:
            raise AnalysisError("anchor vanished: %s:%s.%s" % (mod.rel, cls, en))
        ps = positional_params(meths[en])
        if len(ps) < 3:
            raise AnalysisError("%s.%s: expected (receiver, triple, context, ...)" % (cls, en))
        here = key_calls(meths[en], ps[2], 2, set())
        if not here:
            raise AnalysisError("%s.%s: no method of the class is called with the context alone (the computation of the context key was not found)" % (cls, en))
        found |= here
    if len(found) != 1:
        raise AnalysisError("%s: the method that computes the key of a context (called by %s with the context alone) is not unique: %s" % (cls, "/".join(entries), sorted(found)))
    return meths[next(iter(found))]


def _module_imports(mod: Module) -> dict[str, tuple[str, Optional[str]]]:
    """local name -> (dotted module, name imported from it or None for the module itself), for the import statements executed when the module
    is loaded (top level, also under if / try there)"""
    out: dict[str, tuple[str, Optional[str]]] = {}

    def absolute(level: int, name: Optional[str]) -> str:
        if not level:
            return name or ""
        base = mod.name.split(".")
        if not mod.rel.endswith("__init__.py"):
            base = base[:-1]
        base = base[:len(base) - (level - 1)] if level > 1 else base
        return ".".join(base + ([name] if name else []))

    def scan(stmts: list) -> None:
        for st in stmts:
            if isinstance(st, ast.ImportFrom):
                src = absolute(st.level, st.module)
                for a in st.names:
                    if a.name != "*":
                        out[a.asname or a.name] = (src, a.name)
            elif isinstance(st, ast.Import):
                for a in st.names:
                    if a.asname:
                        out[a.asname] = (a.name, None)
            elif isinstance(st, ast.If):
                scan(st.body)
                scan(st.orelse)
            elif isinstance(st, ast.Try):
                scan(st.body)
                for h in st.handlers:
                    scan(h.body)
                scan(st.orelse)
                scan(st.finalbody)

    scan(mod.tree.body)
    return out


def imported_function(repo, mod: Module, f: ast.expr, fn: ast.AST) -> Optional[tuple[Module, ast.FunctionDef]]:
    """(module of the package, module-level function there) that the expression f - a name imported from a module of the package, or an
    attribute of a name that is such a module - plainly denotes inside fn; None where the name is rebound in fn or does not lead into the package."""
    if repo is None:
        return None
    local = bound_names(getattr(fn, "body", [])) | set(positional_params(fn))
    imps = _module_imports(mod)
    target: Optional[tuple[str, str]] = None
    if isinstance(f, ast.Name) and f.id in imps and f.id not in local and f.id not in mod.defs and imps[f.id][1] is not None:
        target = (imps[f.id][0], imps[f.id][1])  # type: ignore[assignment]
    elif isinstance(f, ast.Attribute) and isinstance(f.value, ast.Name) and f.value.id in imps and f.value.id not in local and f.value.id not in mod.defs:
        src, nm = imps[f.value.id]
        target = (src if nm is None else (src + "." + nm if src else nm), f.attr)
    if target is None or target[0] not in repo.modules:
        return None
    m2 = repo.mod(target[0])
    d = m2.defs.get(target[1])
    if isinstance(d, (ast.FunctionDef, ast.AsyncFunctionDef)):
        return m2, d  # type: ignore[return-value]
    return None


def _callee_def(mod: Module, call: ast.Call, fn: ast.AST, cls_methods: Optional[dict] = None, recv: Optional[str] = None) -> Optional[ast.FunctionDef]:
    """the function of this module a call plainly names: <receiver>.<method of the class>(...) or <module-level function>(...)"""
    f = call.func
    if isinstance(f, ast.Attribute) and isinstance(f.value, ast.Name) and recv is not None and f.value.id == recv and cls_methods and f.attr in cls_methods:
        return cls_methods[f.attr]
    if isinstance(f, ast.Name):
        d = mod.defs.get(f.id)
        if isinstance(d, (ast.FunctionDef, ast.AsyncFunctionDef)) and f.id not in bound_names(getattr(fn, "body", [])) and f.id not in positional_params(fn):
            return d  # type: ignore[return-value]
    return None


def returned_leaves(mod: Module, fn: ast.FunctionDef, cls_methods: Optional[dict] = None, depth: int = 4, _seen: Optional[set] = None, repo=None) -> list[tuple[ast.expr, ast.FunctionDef]]:
    """(expression, function it stands in) for everything fn can hand back other than the constant None: a returned local is replaced by every
    value assigned to it, a returned call of a method of the class / a module-level function by what that function returns - also a
    module-level function of another module of the package that this module imports (given `repo`); what that one returns is read in its own module."""
    seen = _seen if _seen is not None else set()
    seen.add(id(fn))
    defs = _flat_assignments(fn)
    recv = receiver_name(fn) if cls_methods and any(m is fn for m in cls_methods.values()) else None
    out: list[tuple[ast.expr, ast.FunctionDef]] = []

    def leaf(e: ast.expr, d: int, names: frozenset) -> None:
        if is_none_const(e):
            return
        if isinstance(e, ast.Name) and e.id in defs and e.id not in names and d:
            for v in defs[e.id]:
                leaf(v, d - 1, names | {e.id})
            return
        if isinstance(e, ast.IfExp):
            leaf(e.body, d, names)
            leaf(e.orelse, d, names)
            return
        if isinstance(e, ast.NamedExpr):
            leaf(e.value, d, names)
            return
        if isinstance(e, ast.Call):
            g = _callee_def(mod, e, fn, cls_methods, recv)
            if g is not None and id(g) not in seen and depth:
                out.extend(returned_leaves(mod, g, cls_methods, depth - 1, seen, repo))
                return
            far = imported_function(repo, mod, e.func, fn) if g is None else None
            if far is not None and id(far[1]) not in seen and depth:
                out.extend(returned_leaves(far[0], far[1], None, depth - 1, seen, repo))
                return
        out.append((e, fn))

    for r in own_nodes(fn):
        if isinstance(r, ast.Return) and r.value is not None:
            leaf(r.value, 4, frozenset())
    return out


def class_of_forms(e: ast.expr) -> set[str]:
    """normalised texts that denote (the name of) the class of the value of e"""
    t = norm(e)
    base = {"%s.__class__" % t, "type(%s)" % t}
    return base | {b + "." + a for b in base for a in ("__name__", "__qualname__")}


def key_built_from_class_and_value(e: ast.expr) -> Optional[ast.expr]:
    """e is a string building (f-string, %, .format, join, +) among whose interpolated values there is an expression E together with the class
    of E: returns E (None otherwise)."""
    from .h_c17 import str_parts

    parts = str_parts(e)
    if parts is None:
        return None
    vals = [p for p in parts if not isinstance(p, str)]
    texts = {norm(p) for p in vals}
    for p in vals:
        if class_of_forms(p) & texts:
            return p
    return None


# --------------------------------------------------------------------------- k: the registry of graphs

_TAKES_OUT = {"remove", "discard", "pop", "clear", "difference_update", "intersection_update", "symmetric_difference_update", "popitem", "__delitem__"}


def registry_attrs(mod: Module, cls: str, entry: str = "add_graph") -> set[str]:
    """The attributes of the receiver that make up the store's registry of graphs: what the public `entry` (add_graph) puts its argument into
    - <receiver>.A.add(graph) / .append / .setdefault / <receiver>.A[..] = graph / <receiver>.A[graph] = .."""
    meths = mod.methods(cls)
    if entry not in meths:
        raise AnalysisError("anchor vanished: %s:%s.%s" % (mod.rel, cls, entry))
    f = meths[entry]
    ps = positional_params(f)
    if len(ps) < 2:
        raise AnalysisError("%s.%s: expected (receiver, graph)" % (cls, entry))
    recv, g = ps[0], ps[1]
    out: set[str] = set()
    for n in own_nodes(f):
        if (isinstance(n, ast.Call) and isinstance(n.func, ast.Attribute) and attr_root(n.func.value, recv)
                and any(isinstance(a, ast.Name) and a.id == g for a in list(n.args) + [k.value for k in n.keywords])):
            out.add(attr_root(n.func.value, recv))  # type: ignore[arg-type]
        elif isinstance(n, ast.Assign) and mentions(n, {g}):
            for t in n.targets:
                if isinstance(t, ast.Subscript) and attr_root(t.value, recv) and (mentions(t.slice, {g}) or mentions(n.value, {g})):
                    out.add(attr_root(t.value, recv))  # type: ignore[arg-type]
    return out


def attr_root(e: ast.AST, recv: str) -> Optional[str]:
    """e is <recv>.A or <recv>.A[..][..]: A"""
    while isinstance(e, ast.Subscript):
        e = e.value
    if isinstance(e, ast.Attribute) and isinstance(e.value, ast.Name) and e.value.id == recv:
        return e.attr
    return None


def registry_drops(fn: ast.FunctionDef, recv: str, attrs: set[str]) -> list[ast.AST]:
    """The constructs of fn that take something out of <recv>.A (A in attrs) or of a local alias of it: a call of a removing method, a `del` of an
    item, `-=` / `&=` / `^=`, a rebinding of the attribute."""
    al = aliases_of(fn, lambda e: isinstance(e, ast.Attribute) and isinstance(e.value, ast.Name) and e.value.id == recv and e.attr in attrs)

    def is_reg(e: ast.AST) -> bool:
        while isinstance(e, ast.Subscript):
            e = e.value
        return (isinstance(e, ast.Attribute) and isinstance(e.value, ast.Name) and e.value.id == recv and e.attr in attrs) or (isinstance(e, ast.Name) and e.id in al)

    out: list[ast.AST] = []
    for n in own_nodes(fn, include_nested=True):
        if isinstance(n, ast.Call) and isinstance(n.func, ast.Attribute) and n.func.attr in _TAKES_OUT and is_reg(n.func.value):
            out.append(n)
        elif isinstance(n, ast.Delete) and any(isinstance(t, ast.Subscript) and is_reg(t.value) for t in n.targets):
            out.append(n)
        elif isinstance(n, ast.AugAssign) and isinstance(n.op, (ast.Sub, ast.BitAnd, ast.BitXor)) and is_reg(n.target):
            out.append(n)
        elif isinstance(n, ast.Assign) and any(isinstance(t, ast.Attribute) and is_reg(t) for t in n.targets):
            out.append(n)
    return out


def reached_only_where(fn: ast.FunctionDef, nodes: list[ast.AST], is_atom: Callable[[ast.expr], bool], want: bool) -> dict[int, bool]:
    """id(node) -> the simple statement that contains the node is reached only on paths on which the atomic condition recognised by `is_atom`
    has been found to be `want` (path-sensitive: GuardWalk).  A node inside no visited statement (a nested def, a test) is absent."""
    defs = _flat_assignments(fn)
    rebound = bound_names(fn.body)
    KEY = ("atom",)

    def atom_of(e: ast.expr) -> Optional[tuple]:
        if is_atom(e):
            return KEY, True, {n.id for n in ast.walk(e) if isinstance(n, ast.Name)}
        return None

    def alias_of(name: str) -> Optional[ast.expr]:
        ds = defs.get(name)
        if ds and len(ds) == 1 and (is_atom(ds[0]) or isinstance(ds[0], (ast.Compare, ast.BoolOp, ast.UnaryOp))) and not any(
                isinstance(n, ast.Name) and n.id in rebound for n in ast.walk(ds[0])) and not any(isinstance(n, ast.Call) for n in ast.walk(ds[0])):
            return ds[0]
        return None

    out: dict[int, bool] = {}

    def visit(s: ast.stmt, vals: set) -> None:
        inside = {id(x) for x in ast.walk(s)}
        for n in nodes:
            if id(n) in inside:
                ok = bool(vals) and all((KEY, want) in v for v in vals)
                out[id(n)] = out.get(id(n), True) and ok

    GuardWalk(atom_of, visit, alias_of).block(fn.body, {frozenset()})
    return out


# --------------------------------------------------------------------------- o: callables, and the arm taken because a graph is empty

_PARTIAL = {"partial", "partialmethod"}


def callables_of(mod: Module, e: ast.expr, fn: ast.AST, _depth: int = 3, _names: frozenset = frozenset()) -> Optional[list[ast.AST]]:
    """The functions (defs of this module) / lambdas the expression `e`, used as a callee inside fn, can evaluate to: a name of a def visible
    from fn, a local of fn (or of a def enclosing it) every plain definition of which is such an expression, functools.partial(f, ...), a
    lambda, a conditional expression.  None when some alternative is not understood."""
    if isinstance(e, ast.Lambda):
        return [e]
    if isinstance(e, ast.IfExp):
        a, b = callables_of(mod, e.body, fn, _depth, _names), callables_of(mod, e.orelse, fn, _depth, _names)
        return None if a is None or b is None else a + b
    if isinstance(e, ast.Call):
        f = e.func
        if ((isinstance(f, ast.Name) and f.id in _PARTIAL) or (isinstance(f, ast.Attribute) and f.attr in _PARTIAL and isinstance(f.value, ast.Name))) and e.args:
            return callables_of(mod, e.args[0], fn, _depth, _names)
        return None
    if not isinstance(e, ast.Name) or _depth <= 0 or e.id in _names:
        return None
    scope = mod.scope.get(id(fn), "")
    parts = scope.split(".") if scope else []
    for k in range(len(parts), -1, -1):
        owner = mod.defs.get(".".join(parts[:k])) if k else None
        if k and isinstance(owner, ast.ClassDef):
            continue  # class attributes are not visible by bare name
        d = mod.defs.get(".".join(parts[:k] + [e.id]))
        if isinstance(d, (ast.FunctionDef, ast.AsyncFunctionDef)):
            return [d]
        if k and isinstance(owner, (ast.FunctionDef, ast.AsyncFunctionDef)):
            if e.id in positional_params(owner) or e.id in {a.arg for a in owner.args.kwonlyargs}:
                return None
            if e.id in bound_names(owner.body):
                ds = _flat_assignments(owner).get(e.id)
                if not ds:
                    return None
                out: list[ast.AST] = []
                for v in ds:
                    r = callables_of(mod, v, owner, _depth - 1, _names | {e.id})
                    if r is None:
                        return None
                    out += r
                return out
    return None


def under_emptiness(t: ast.expr, site: ast.AST) -> Optional[bool]:
    """What the test t comes out as when the graph tested at `site` (a truth-tested expression, or a len(..) call) is empty; None if that
    does not decide it."""
    if t is site:
        return False
    if isinstance(t, ast.UnaryOp) and isinstance(t.op, ast.Not):
        v = under_emptiness(t.operand, site)
        return None if v is None else (not v)
    if isinstance(t, ast.BoolOp):
        vals = [under_emptiness(v, site) for v in t.values]
        if isinstance(t.op, ast.And):
            return False if any(v is False for v in vals) else (True if all(v is True for v in vals) else None)
        return True if any(v is True for v in vals) else (False if all(v is False for v in vals) else None)
    if isinstance(t, ast.Compare) and len(t.ops) == 1 and (t.left is site or t.comparators[0] is site):
        lc = _len_compare(t)
        if lc is not None:
            _, op, k = lc
            return {ast.Eq: 0 == k, ast.NotEq: 0 != k, ast.Lt: 0 < k, ast.LtE: 0 <= k, ast.Gt: 0 > k, ast.GtE: 0 >= k}.get(op)
    return None


def _block_of(mod: Module, st: ast.AST) -> Optional[tuple[ast.AST, list, int]]:
    p = mod.parent.get(id(st))
    if p is None:
        return None
    for field in ("body", "orelse", "finalbody"):
        blk = getattr(p, field, None)
        if isinstance(blk, list):
            for i, x in enumerate(blk):
                if x is st:
                    return p, blk, i
    return None


def arm_reached_only_when_false(mod: Module, ifn: ast.If) -> Optional[list[ast.stmt]]:
    """The statements that run exactly when the test of `ifn` came out false: its else arm; or, when its body always ends in `continue` /
    `return` and there is no else arm, what follows it in its block - provided nothing else runs after that block before the loop goes round /
    the function ends (every enclosing statement up to the loop / the function is the last of its block).  None when there is no such
    arm or it is not understood."""
    if ifn.orelse:
        return list(ifn.orelse)
    last = ifn.body[-1] if ifn.body else None
    if isinstance(last, ast.Continue):
        stops: tuple = (ast.For, ast.AsyncFor, ast.While)
    elif isinstance(last, ast.Return):
        stops = (ast.FunctionDef, ast.AsyncFunctionDef)
    else:
        return None
    here = _block_of(mod, ifn)
    if here is None:
        return None
    rest = list(here[1][here[2] + 1:])
    cur: ast.AST = ifn
    while True:
        b = _block_of(mod, cur)
        if b is None:
            return None
        p, blk, i = b
        if cur is not ifn and i != len(blk) - 1:
            return None  # something else runs after the enclosing statement, on the false path only (the true path has jumped)
        if isinstance(p, stops):
            return rest if blk is p.body else None
        if not isinstance(p, (ast.If, ast.With, ast.AsyncWith)):
            return None  # a loop / try / def boundary that the jump crosses in a way not modelled
        cur = p


# --------------------------------------------------------------------------- e: copies of the triple

def triple_copies(scope: ast.AST, triple_names: set[str], comps: set[str]) -> set[str]:
    """Local names every plain definition of which (inside `scope`) is the triple again: a name of `triple_names`, tuple()/list() of one, or a
    display (a, b, c) of three elements each of which is a component name or <triple>[i]."""
    defs = _flat_assignments(scope)
    out = set(triple_names)

    def is_triple(v: ast.expr) -> bool:
        if isinstance(v, ast.Name):
            return v.id in out
        if isinstance(v, ast.Call) and isinstance(v.func, ast.Name) and v.func.id in ("tuple", "list") and len(v.args) == 1 and not v.keywords:
            return is_triple(v.args[0])
        if isinstance(v, (ast.Tuple, ast.List)) and len(v.elts) == 3:
            return all((isinstance(x, ast.Name) and x.id in comps) or (isinstance(x, ast.Subscript) and isinstance(x.value, ast.Name) and x.value.id in out) for x in v.elts)
        return False

    changed = True
    while changed:
        changed = False
        for name, vs in defs.items():
            if name not in out and name not in comps and vs and all(is_triple(v) for v in vs):
                out.add(name)
                changed = True
    return out
