"""Helpers of check C02 (rules m, n, o).

* scenario execution: a statement-level abstract execution of ONE function under the assumption "parameter P is a
  ConjunctiveGraph/Dataset object whose .store is self.store".  Tests on P are folded in three-valued logic, everything
  else forks.  Reports the `return` statements that can hand P itself back.
* direct iteration sites of an expression (for / comprehension / yield from / list(), set(), sorted() ... / *x).
* existence tests: calls that (through local helper functions) consult the registry of graphs of a dataset.
"""
from __future__ import annotations

import ast
from typing import Callable, Iterator, Optional

from .core import AnalysisError, Module, norm, own_nodes

# --------------------------------------------------------------------------- scenario execution

State = frozenset  # names that hold the scenario object on this path


class Scenario:
    """P is a dataset object (ConjunctiveGraph or one of its subclasses) that shares self's store."""

    def __init__(self, fn: ast.FunctionDef, param: str, self_name: str,
                 class_verdict: Callable[[str], Optional[bool]], store_attr: str = "store"):
        self.fn = fn
        self.self_name = self_name
        self.class_verdict = class_verdict  # class name -> True (scenario object is an instance) / False / None (unknown)
        self.store_attr = store_attr
        self.hits: list[ast.Return] = []
        self.loop_exits: list[set] = []
        out = self.block(fn.body, {State([param])})
        del out

    # -- three-valued evaluation of a test
    def holds(self, e: ast.expr, st: State) -> bool:
        return isinstance(e, ast.Name) and e.id in st

    def ev(self, e: ast.expr, st: State) -> Optional[bool]:
        if isinstance(e, ast.UnaryOp) and isinstance(e.op, ast.Not):
            v = self.ev(e.operand, st)
            return None if v is None else (not v)
        if isinstance(e, ast.BoolOp):
            vals = [self.ev(v, st) for v in e.values]
            if isinstance(e.op, ast.And):
                return False if any(v is False for v in vals) else (True if all(v is True for v in vals) else None)
            return True if any(v is True for v in vals) else (False if all(v is False for v in vals) else None)
        if isinstance(e, ast.Compare) and len(e.ops) == 1:
            l, r, op = e.left, e.comparators[0], e.ops[0]
            same = isinstance(op, (ast.Is, ast.Eq))
            diff = isinstance(op, (ast.IsNot, ast.NotEq))
            if same or diff:
                for a, b in ((l, r), (r, l)):
                    if self.holds(a, st) and isinstance(b, ast.Constant) and b.value is None:
                        return diff  # the scenario object is not None
                    if (isinstance(a, ast.Attribute) and a.attr == self.store_attr and self.holds(a.value, st)
                            and isinstance(b, ast.Attribute) and b.attr == self.store_attr
                            and isinstance(b.value, ast.Name) and b.value.id == self.self_name):
                        return same  # it shares self's store
            return None
        if isinstance(e, ast.Call) and isinstance(e.func, ast.Name) and e.func.id == "isinstance" and len(e.args) == 2 and self.holds(e.args[0], st):
            spec = e.args[1]
            names = []
            for x in (spec.elts if isinstance(spec, ast.Tuple) else [spec]):
                if isinstance(x, ast.Name):
                    names.append(x.id)
                elif isinstance(x, ast.Attribute):
                    names.append(x.attr)
                else:
                    return None
            vs = [self.class_verdict(n) for n in names]
            if any(v is True for v in vs):
                return True
            if vs and all(v is False for v in vs):
                return False
            return None
        if isinstance(e, ast.Constant):
            return bool(e.value)
        return None

    # -- values an expression may evaluate to (only the shapes that can pass the object through)
    def values(self, e: ast.expr, st: State) -> Iterator[ast.expr]:
        if isinstance(e, ast.IfExp):
            v = self.ev(e.test, st)
            if v is not False:
                yield from self.values(e.body, st)
            if v is not True:
                yield from self.values(e.orelse, st)
        elif isinstance(e, ast.BoolOp):
            for x in e.values:
                yield from self.values(x, st)
        elif isinstance(e, ast.NamedExpr):
            yield from self.values(e.value, st)
        else:
            yield e

    def may_be_object(self, e: ast.expr, st: State) -> bool:
        return any(self.holds(v, st) for v in self.values(e, st))

    # -- statements
    def assign(self, targets: list[ast.expr], value: Optional[ast.expr], st: State) -> State:
        names = set()
        for t in targets:
            for n in ast.walk(t):
                if isinstance(n, ast.Name):
                    names.add(n.id)
        keep = value is not None and len(targets) == 1 and isinstance(targets[0], ast.Name) and self.may_be_object(value, st)
        if keep:
            return State(set(st) | names)
        return State(set(st) - names)

    def block(self, stmts: list[ast.stmt], states: set) -> set:
        for s in stmts:
            if not states:
                break
            nxt: set = set()
            for st in states:
                nxt |= self.stmt(s, st)
            states = nxt
        return states

    def stmt(self, s: ast.stmt, st: State) -> set:
        if isinstance(s, ast.Return):
            if s.value is not None and self.may_be_object(s.value, st) and s not in self.hits:
                self.hits.append(s)
            return set()
        if isinstance(s, ast.Raise):
            return set()
        if isinstance(s, ast.If):
            v = self.ev(s.test, st)
            out: set = set()
            if v is not False:
                out |= self.block(s.body, {st})
            if v is not True:
                out |= self.block(s.orelse, {st})
            return out
        if isinstance(s, ast.Assign):
            return {self.assign(s.targets, s.value, st)}
        if isinstance(s, ast.AnnAssign):
            return {self.assign([s.target], s.value, st)}
        if isinstance(s, ast.AugAssign):
            return {self.assign([s.target], None, st)}
        if isinstance(s, ast.Delete):
            return {self.assign(s.targets, None, st)}
        if isinstance(s, ast.Assert):
            return set() if self.ev(s.test, st) is False else {st}
        if isinstance(s, (ast.Expr, ast.Pass, ast.Import, ast.ImportFrom, ast.Global, ast.Nonlocal, ast.FunctionDef, ast.AsyncFunctionDef, ast.ClassDef)):
            return {st}
        if isinstance(s, (ast.For, ast.AsyncFor, ast.While)):
            self.loop_exits.append(set())
            entry = {st}
            if isinstance(s, (ast.For, ast.AsyncFor)):
                entry = {self.assign([s.target], None, st)}
            body = self.block(s.body, entry)
            # a second round so that facts established by the first iteration are seen by the tests of the next
            body |= self.block(s.body, set(body))
            exits = self.loop_exits.pop()
            return self.block(s.orelse, {st} | body) | exits
        if isinstance(s, (ast.Break, ast.Continue)):
            if not self.loop_exits:
                raise AnalysisError("break/continue outside a loop in %s" % self.fn.name)
            self.loop_exits[-1].add(st)
            return set()
        if isinstance(s, (ast.With, ast.AsyncWith)):
            cur = st
            for it in s.items:
                if it.optional_vars is not None:
                    cur = self.assign([it.optional_vars], None, cur)
            return self.block(s.body, {cur})
        if isinstance(s, ast.Try):
            body = self.block(s.body, {st})
            out = self.block(s.orelse, set(body)) if s.orelse else set(body)
            for h in s.handlers:
                # the exception may have been raised anywhere in the body
                start = {st} | body
                if h.name:
                    start = {self.assign([ast.Name(id=h.name, ctx=ast.Store())], None, x) for x in start}
                out |= self.block(h.body, start)
            if s.finalbody:
                out = self.block(s.finalbody, out)
            return out
        raise AnalysisError("scenario execution of %s: unmodelled statement %s" % (self.fn.name, type(s).__name__))


def graph_params(fn: ast.FunctionDef, markers: tuple[str, ...]) -> list[str]:
    """Parameters (other than the receiver) whose annotation mentions one of `markers` as a whole word."""
    import re

    out = []
    a = fn.args
    allp = list(a.posonlyargs) + list(a.args) + list(a.kwonlyargs)
    for p in allp[1:]:
        if p.annotation is None:
            continue
        words = set(re.findall(r"[A-Za-z_][A-Za-z_0-9]*", norm(p.annotation)))
        if words & set(markers):
            out.append(p.arg)
    return out


def receiver_name(fn: ast.FunctionDef) -> Optional[str]:
    a = fn.args
    allp = list(a.posonlyargs) + list(a.args)
    return allp[0].arg if allp else None


# --------------------------------------------------------------------------- iteration sites

# builtins that iterate their (first) positional argument
ITERATING_BUILTINS = {"list", "set", "sorted", "tuple", "frozenset", "iter", "enumerate", "reversed", "sum", "min", "max",
                      "any", "all", "dict", "next"}
# builtins that iterate every positional argument after the first / all of them
ITERATING_ALL_ARGS = {"zip"}
ITERATING_TAIL_ARGS = {"map", "filter"}


def iterated_exprs(fn: ast.AST) -> Iterator[tuple[ast.expr, ast.AST, str]]:
    """(expression, owner node, kind) for every expression whose __iter__ is invoked in fn (nested defs included)."""
    for n in own_nodes(fn, include_nested=True):
        if isinstance(n, (ast.For, ast.AsyncFor)):
            yield n.iter, n, "for"
        elif isinstance(n, ast.comprehension):
            yield n.iter, n, "comprehension"
        elif isinstance(n, ast.YieldFrom):
            yield n.value, n, "yield from"
        elif isinstance(n, ast.Starred) and isinstance(getattr(n, "ctx", None), ast.Load):
            yield n.value, n, "*unpacking"
        elif isinstance(n, ast.Call) and isinstance(n.func, ast.Name):
            if n.func.id in ITERATING_BUILTINS and n.args:
                yield n.args[0], n, n.func.id + "()"
            elif n.func.id in ITERATING_ALL_ARGS:
                for a in n.args:
                    yield a, n, n.func.id + "()"
            elif n.func.id in ITERATING_TAIL_ARGS:
                for a in n.args[1:]:
                    yield a, n, n.func.id + "()"
        elif isinstance(n, ast.Assign) and any(isinstance(t, (ast.Tuple, ast.List)) for t in n.targets):
            yield n.value, n, "unpacking"


def attr_of_receiver(e: ast.AST, recv: Optional[str], attr: str) -> bool:
    return isinstance(e, ast.Attribute) and e.attr == attr and isinstance(e.value, ast.Name) and e.value.id == recv


def aliases_of(fn: ast.AST, is_source: Callable[[ast.AST], bool]) -> set[str]:
    """Local names assigned (anywhere in fn, nested defs included: closures read them) from an expression accepted by is_source,
    closed under copies name = name."""
    out: set[str] = set()
    changed = True
    while changed:
        changed = False
        for n in own_nodes(fn, include_nested=True):
            tgt = val = None
            if isinstance(n, ast.Assign) and len(n.targets) == 1:
                tgt, val = n.targets[0], n.value
            elif isinstance(n, ast.AnnAssign):
                tgt, val = n.target, n.value
            elif isinstance(n, ast.NamedExpr):
                tgt, val = n.target, n.value
            if isinstance(tgt, ast.Name) and val is not None and tgt.id not in out:
                if is_source(val) or (isinstance(val, ast.Name) and val.id in out):
                    out.add(tgt.id)
                    changed = True
    return out


# --------------------------------------------------------------------------- existence tests

def guard_conjuncts(mod: Module, node: ast.AST, fn: ast.AST) -> list[ast.expr]:
    """The conditions that all hold where `node` (an expression inside a test) decides: the conjuncts of the test it belongs to
    and of every enclosing `if`/`while`/ternary on whose true arm that test sits."""
    out: list[ast.expr] = []

    def flat(t: ast.expr) -> None:
        if isinstance(t, ast.BoolOp) and isinstance(t.op, ast.And):
            for v in t.values:
                flat(v)
        else:
            out.append(t)

    child: ast.AST = node
    for p in mod.parents(node):
        if isinstance(p, (ast.If, ast.While, ast.IfExp)):
            in_test = child is p.test
            body = p.body if isinstance(p.body, list) else [p.body]
            if in_test or any(child is b for b in body):
                flat(p.test)
        elif isinstance(p, ast.Assert) and child is p.test:
            flat(p.test)
        elif isinstance(p, ast.comprehension) and any(child is i for i in p.ifs):
            for i in p.ifs:
                flat(i)
        if p is fn:
            break
        child = p
    return out


def consults_registry(mod: Module, e: ast.AST, fn: ast.AST, registry_methods: set[str], _depth: int = 0, _seen: Optional[set] = None) -> Optional[str]:
    """e contains a call of one of the registry methods (x.contexts(), x.graphs(), x.get_graph(n), ...), directly or inside a
    function it calls that is defined in the same module (nested helper, module function, method of the same class reached
    through the receiver).  Returns the text of the registry call or None."""
    seen = _seen if _seen is not None else set()
    for n in ast.walk(e):
        if not isinstance(n, ast.Call):
            continue
        if isinstance(n.func, ast.Attribute) and n.func.attr in registry_methods:
            return norm(n)[:80]
        if _depth >= 3:
            continue
        target = None
        scope = mod.scope.get(id(fn), "")
        parts = scope.split(".") if scope else []
        if isinstance(n.func, ast.Name):
            # innermost definition of that name visible from fn: nested in fn, in an enclosing def, or at module level
            for k in range(len(parts), -1, -1):
                if k and isinstance(mod.defs.get(".".join(parts[:k])), ast.ClassDef):
                    continue  # class attributes are not visible by bare name
                d = mod.defs.get(".".join(parts[:k] + [n.func.id]))
                if isinstance(d, (ast.FunctionDef, ast.AsyncFunctionDef)):
                    target = d
                    break
        elif isinstance(n.func, ast.Attribute) and isinstance(n.func.value, ast.Name):
            # receiver.method(...) inside a method of a class of this module
            for k in range(len(parts) - 1, 0, -1):
                if isinstance(mod.defs.get(".".join(parts[:k])), ast.ClassDef):
                    meth = mod.defs.get(".".join(parts[:k + 1]))
                    d = mod.defs.get(".".join(parts[:k] + [n.func.attr]))
                    if (isinstance(meth, (ast.FunctionDef, ast.AsyncFunctionDef)) and receiver_name(meth) == n.func.value.id
                            and isinstance(d, (ast.FunctionDef, ast.AsyncFunctionDef))):
                        target = d
                    break
        if target is not None and id(target) not in seen:
            seen.add(id(target))
            for st in target.body:
                r = consults_registry(mod, st, target, registry_methods, _depth + 1, seen)
                if r:
                    return "%s -> %s" % (norm(n.func), r)
    return None


def both_arms_raise(mod: Module, ifn: ast.If) -> bool:
    """`if t: ...; raise A` whose alternative (else arm, or the statement that follows the `if`) raises as well: the test cannot
    change what the caller observes beyond the error reported."""
    if not ifn.body or not isinstance(ifn.body[-1], ast.Raise):
        return False
    if ifn.orelse:
        return isinstance(ifn.orelse[-1], ast.Raise)
    parent = mod.parent.get(id(ifn))
    for field in ("body", "orelse", "finalbody"):
        blk = getattr(parent, field, None)
        if isinstance(blk, list) and any(x is ifn for x in blk):
            i = [k for k, x in enumerate(blk) if x is ifn][0]
            return i + 1 < len(blk) and isinstance(blk[i + 1], ast.Raise)
    return False
