"""Helpers of check C05 (parser side): constant folding of module-level string / character-set expressions, the table of
regular expressions a module compiles, code-point sets of regex character classes, a bounded language of a regex over a tiny
alphabet, the name-character tables of the W3C grammars, and small def-use helpers.  Only stdlib `ast` / `re._parser` are used;
no pattern is ever matched against anything and nothing of the analysed library is executed."""
from __future__ import annotations

import ast
import re
import re._parser as sre  # type: ignore[import-not-found]
from typing import Iterator, Optional

from vlib.core import AnalysisError, Module, Repo, norm, own_nodes

MAXCP = 0x10FFFF

# ------------------------------------------------------------------------------------------------ code-point sets
Intervals = list  # sorted, disjoint list of (lo, hi)


def iv_norm(iv) -> Intervals:
    out: list = []
    for lo, hi in sorted(iv):
        if out and lo <= out[-1][1] + 1:
            out[-1] = (out[-1][0], max(out[-1][1], hi))
        else:
            out.append((lo, hi))
    return out


def iv_union(a, b) -> Intervals:
    return iv_norm(list(a) + list(b))


def iv_compl(a) -> Intervals:
    out, prev = [], 0
    for lo, hi in iv_norm(a):
        if lo > prev:
            out.append((prev, lo - 1))
        prev = hi + 1
    if prev <= MAXCP:
        out.append((prev, MAXCP))
    return out


def iv_minus(a, b) -> Intervals:
    """a - b"""
    cb = iv_compl(b)
    out = []
    for lo, hi in iv_norm(a):
        for l2, h2 in cb:
            l, h = max(lo, l2), min(hi, h2)
            if l <= h:
                out.append((l, h))
    return iv_norm(out)


def iv_has(a, cp: int) -> bool:
    return any(lo <= cp <= hi for lo, hi in a)


def iv_show(a, limit: int = 6) -> str:
    def one(c: int) -> str:
        return chr(c) if 0x21 <= c <= 0x7E else "U+%04X" % c
    parts = [one(lo) if lo == hi else "%s-%s" % (one(lo), one(hi)) for lo, hi in a[:limit]]
    return " ".join(parts) + (" ..." if len(a) > limit else "")


_CAT_CACHE: dict = {}


def _category(cat, ascii_only: bool) -> Intervals:
    """code points of a regex category escape (\\s \\d \\w and negations) for str patterns"""
    name = str(cat)
    key = (name, ascii_only)
    if key in _CAT_CACHE:
        return _CAT_CACHE[key]
    base = name.replace("CATEGORY_NOT_", "CATEGORY_").replace("CATEGORY_UNI_", "CATEGORY_").replace("CATEGORY_LOC_", "CATEGORY_")
    top = 0x7F if ascii_only else MAXCP
    if base == "CATEGORY_SPACE":
        pred = (lambda c: c in (9, 10, 11, 12, 13, 32)) if ascii_only else (lambda c: chr(c).isspace())
    elif base == "CATEGORY_DIGIT":
        pred = (lambda c: 48 <= c <= 57) if ascii_only else (lambda c: chr(c).isdecimal())
    elif base == "CATEGORY_WORD":
        pred = (lambda c: chr(c).isalnum() or c == 95)
    elif base == "CATEGORY_LINEBREAK":
        pred = lambda c: c == 10  # noqa: E731
    else:
        raise AnalysisError("regex category %s is not modelled" % name)
    iv, start = [], None
    for c in range(top + 1):
        if pred(c):
            if start is None:
                start = c
        elif start is not None:
            iv.append((start, c - 1))
            start = None
    if start is not None:
        iv.append((start, top))
    if "_NOT_" in name:
        iv = iv_compl(iv)
    _CAT_CACHE[key] = iv
    return iv


def class_set(op, av, flags: int) -> Optional[Intervals]:
    """the set of code points one single-character regex item matches (None: not a single-character item)"""
    ascii_only = bool(flags & re.ASCII)
    o = str(op)
    if o == "LITERAL":
        return [(av, av)]
    if o == "NOT_LITERAL":
        return iv_compl([(av, av)])
    if o == "ANY":
        return [(0, MAXCP)] if flags & re.DOTALL else iv_compl([(10, 10)])
    if o == "IN":
        neg, iv = False, []
        for k, v in av:
            ks = str(k)
            if ks == "NEGATE":
                neg = True
            elif ks == "LITERAL":
                iv.append((v, v))
            elif ks == "RANGE":
                iv.append((v[0], v[1]))
            elif ks == "CATEGORY":
                iv.extend(_category(v, ascii_only))
            else:
                raise AnalysisError("regex class item %s is not modelled" % ks)
        iv = iv_norm(iv)
        return iv_compl(iv) if neg else iv
    return None


def is_negated(op, av) -> bool:
    o = str(op)
    return o == "NOT_LITERAL" or (o == "IN" and any(str(k) == "NEGATE" for k, _ in av))


def has_category(op, av) -> bool:
    return str(op) == "IN" and any(str(k) == "CATEGORY" for k, _ in av)


def regex_items(sp) -> Iterator[tuple]:
    """(op, av) of every item of a parsed pattern, outermost first, in pattern order"""
    for op, av in sp:
        yield op, av
        o = str(op)
        if o == "BRANCH":
            for alt in av[1]:
                yield from regex_items(alt)
        elif o in ("SUBPATTERN", "ATOMIC_GROUP"):
            yield from regex_items(av[-1] if o == "SUBPATTERN" else av)
        elif o in ("MAX_REPEAT", "MIN_REPEAT", "POSSESSIVE_REPEAT"):
            yield from regex_items(av[2])
        elif o in ("ASSERT", "ASSERT_NOT"):
            yield from regex_items(av[1])


def bounded_language(sp, flags: int, sigma: tuple, maxlen: int) -> Optional[set]:
    """the strings over `sigma` of length <= maxlen that the pattern matches as a whole (anchors are taken as satisfied);
    None when the pattern uses a construct that is not modelled (look-around, back references)"""

    def cat(a: set, b: set) -> set:
        return {x + y for x in a for y in b if len(x) + len(y) <= maxlen}

    def seq(items) -> Optional[set]:
        cur = {""}
        for op, av in items:
            one = item(op, av)
            if one is None:
                return None
            cur = cat(cur, one)
        return cur

    def item(op, av) -> Optional[set]:
        o = str(op)
        cs = class_set(op, av, flags)
        if cs is not None:
            return {c for c in sigma if iv_has(cs, ord(c))}
        if o == "AT":
            return {""}
        if o == "BRANCH":
            out: set = set()
            for alt in av[1]:
                r = seq(alt)
                if r is None:
                    return None
                out |= r
            return out
        if o == "SUBPATTERN":
            return seq(av[-1])
        if o in ("MAX_REPEAT", "MIN_REPEAT", "POSSESSIVE_REPEAT"):
            lo, hi, body = av
            one = seq(body)
            if one is None:
                return None
            out, power = set(), {""}
            for k in range(0, min(int(hi), int(lo) + maxlen) + 1):
                if k >= lo:
                    out |= power
                power = cat(power, one)
            return out
        return None

    return seq(sp)


# ------------------------------------------------------------------------------------------------ grammar tables
# PN_CHARS_BASE / PN_CHARS_U / PN_CHARS of the N-Triples, N-Quads, Turtle and TriG grammars (the part the grammars share:
# N-Triples adds ':' to PN_CHARS_U, Turtle does not)
PN_CHARS_BASE = iv_norm([(0x41, 0x5A), (0x61, 0x7A), (0xC0, 0xD6), (0xD8, 0xF6), (0xF8, 0x2FF), (0x370, 0x37D), (0x37F, 0x1FFF), (0x200C, 0x200D),
                         (0x2070, 0x218F), (0x2C00, 0x2FEF), (0x3001, 0xD7FF), (0xF900, 0xFDCF), (0xFDF0, 0xFFFD), (0x10000, 0xEFFFF)])
PN_CHARS_U = iv_union(PN_CHARS_BASE, [(0x5F, 0x5F)])
DIGITS = [(0x30, 0x39)]
PN_CHARS = iv_union(PN_CHARS_U, [(0x2D, 0x2D), (0x30, 0x39), (0xB7, 0xB7), (0x300, 0x36F), (0x203F, 0x2040)])


# ------------------------------------------------------------------------------------------------ constant folding
def _module_binding(repo: Repo, mod: Module, name: str, depth: int = 0):
    """(module, value expression) of the single module-level binding of `name`, following `from m import name`"""
    if depth > 4:
        return None
    vals = []
    for st in mod.tree.body:
        if isinstance(st, ast.Assign) and any(isinstance(t, ast.Name) and t.id == name for t in st.targets):
            vals.append(st.value)
        elif isinstance(st, ast.AnnAssign) and isinstance(st.target, ast.Name) and st.target.id == name and st.value is not None:
            vals.append(st.value)
    if len(vals) == 1:
        return mod, vals[0]
    if vals:
        return None
    for st in ast.walk(mod.tree):
        if isinstance(st, ast.ImportFrom):
            for a in st.names:
                if (a.asname or a.name) == name:
                    if st.level:
                        pkg = mod.name.split(".")
                        if not mod.rel.endswith("__init__.py"):
                            pkg = pkg[:-1]
                        pkg = pkg[: len(pkg) - (st.level - 1)]
                        target = ".".join(pkg + ([st.module] if st.module else []))
                    else:
                        target = st.module or ""
                    if target in repo.modules:
                        return _module_binding(repo, repo.modules[target], a.name, depth + 1)
    return None


def const_str(repo: Repo, mod: Module, e: ast.AST, depth: int = 0) -> Optional[str]:
    """value of a string expression built from constants and module-level constant names (+, %, f-strings of constants)"""
    if depth > 8:
        return None
    if isinstance(e, ast.Constant):
        return e.value if isinstance(e.value, str) else None
    if isinstance(e, ast.JoinedStr):
        # a slot without format spec and with no conversion (or !s) whose value is a constant string contributes that string
        parts = [const_str(repo, mod, v, depth + 1) if not isinstance(v, ast.FormattedValue) else
                 (const_str(repo, mod, v.value, depth + 1) if v.format_spec is None and v.conversion in (-1, 115) else None) for v in e.values]
        return "".join(parts) if all(p is not None for p in parts) else None  # type: ignore[arg-type]
    if isinstance(e, ast.BinOp) and isinstance(e.op, ast.Add):
        a, b = const_str(repo, mod, e.left, depth + 1), const_str(repo, mod, e.right, depth + 1)
        return a + b if a is not None and b is not None else None
    if isinstance(e, ast.BinOp) and isinstance(e.op, ast.Mod):
        a = const_str(repo, mod, e.left, depth + 1)
        rs = e.right.elts if isinstance(e.right, ast.Tuple) else [e.right]
        vals = [const_str(repo, mod, r, depth + 1) for r in rs]
        if a is None or any(v is None for v in vals):
            return None
        try:
            return a % tuple(vals)
        except (TypeError, ValueError):
            return None
    if isinstance(e, ast.Name):
        b = _module_binding(repo, mod, e.id)
        return const_str(repo, b[0], b[1], depth + 1) if b else None
    return None


def const_charset(repo: Repo, mod: Module, e: ast.AST, depth: int = 0) -> Optional[frozenset]:
    """value of a constant collection of strings used on the right of `in`: a set/tuple/list display of constants, set("..."),
    a string constant (its characters), a union of such, or a module-level name bound to one"""
    if depth > 8:
        return None
    if isinstance(e, (ast.Set, ast.Tuple, ast.List)):
        vals = [const_str(repo, mod, x, depth + 1) for x in e.elts]
        return frozenset(vals) if all(v is not None for v in vals) else None  # type: ignore[arg-type]
    if isinstance(e, ast.Constant) and isinstance(e.value, str):
        return frozenset(e.value)
    if isinstance(e, ast.Call) and isinstance(e.func, ast.Name) and e.func.id in ("set", "frozenset") and len(e.args) == 1 and not e.keywords:
        s = const_str(repo, mod, e.args[0], depth + 1)
        if s is not None:
            return frozenset(s)
        return const_charset(repo, mod, e.args[0], depth + 1)
    if isinstance(e, ast.BinOp) and isinstance(e.op, ast.BitOr):
        a, b = const_charset(repo, mod, e.left, depth + 1), const_charset(repo, mod, e.right, depth + 1)
        return a | b if a is not None and b is not None else None
    if isinstance(e, ast.Name):
        b = _module_binding(repo, mod, e.id)
        return const_charset(repo, b[0], b[1], depth + 1) if b else None
    return None


# ------------------------------------------------------------------------------------------------ regex tables
_RE_FUNCS = {"compile", "match", "fullmatch", "search", "sub", "subn", "split", "findall", "finditer"}
_FLAG_NAMES = {"A": re.A, "ASCII": re.A, "S": re.S, "DOTALL": re.S, "I": re.I, "IGNORECASE": re.I, "M": re.M, "MULTILINE": re.M, "X": re.X, "VERBOSE": re.X,
               "U": re.U, "UNICODE": re.U}


class Regex:
    def __init__(self, label: str, pattern: str, flags: int, node: ast.AST, mod: Module):
        self.label, self.pattern, self.node, self.mod = label, pattern, node, mod
        try:
            self.sp = sre.parse(pattern, flags)
        except Exception as e:  # an invalid pattern is not ours to judge
            raise AnalysisError("%s: pattern of %s does not parse: %s" % (mod.rel, label, e))
        self.flags = self.sp.state.flags

    def min_width(self) -> int:
        return int(self.sp.getwidth()[0])


def _re_call(repo: Repo, mod: Module, c: ast.AST) -> Optional[tuple]:
    """(pattern, flags) if c is `re.<fn>(<constant pattern>, ...)`"""
    if not (isinstance(c, ast.Call) and c.args):
        return None
    f = c.func
    if not (isinstance(f, ast.Attribute) and isinstance(f.value, ast.Name) and f.value.id == "re" and f.attr in _RE_FUNCS):
        return None
    pat = const_str(repo, mod, c.args[0])
    if pat is None:
        return None
    flags = 0
    fl = [k.value for k in c.keywords if k.arg == "flags"]
    if f.attr == "compile" and len(c.args) > 1:
        fl.append(c.args[1])
    for fe in fl:
        for n in ast.walk(fe):
            if isinstance(n, ast.Attribute) and n.attr in _FLAG_NAMES:
                flags |= _FLAG_NAMES[n.attr]
    return pat, flags


def module_regexes(repo: Repo, mod: Module) -> list[Regex]:
    """every regular expression the module builds from a constant pattern: `NAME = re.compile(...)` at module level (label NAME)
    and `re.<fn>(<pattern>, ...)` calls inside functions (label = qualified function).  A module-level re.compile whose pattern
    cannot be folded to a constant fails closed."""
    out: list[Regex] = []
    seen: set = set()
    for st in mod.tree.body:
        if isinstance(st, ast.Assign) and len(st.targets) == 1 and isinstance(st.targets[0], ast.Name) and isinstance(st.value, ast.Call):
            f = st.value.func
            if isinstance(f, ast.Attribute) and isinstance(f.value, ast.Name) and f.value.id == "re" and f.attr == "compile":
                r = _re_call(repo, mod, st.value)
                if r is None:
                    raise AnalysisError("%s: the pattern of %s is not a foldable constant" % (mod.rel, st.targets[0].id))
                out.append(Regex(st.targets[0].id, r[0], r[1], st.value, mod))
                seen.add(id(st.value))
    for q, fn in mod.functions():
        for c in own_nodes(fn):
            if id(c) in seen:
                continue
            r = _re_call(repo, mod, c)
            if r is not None:
                seen.add(id(c))
                out.append(Regex(q, r[0], r[1], c, mod))
    return out


def resolve_regex(repo: Repo, mod: Module, e: ast.AST) -> Optional[Regex]:
    """the Regex a Name denotes (module-level `NAME = re.compile(...)`, possibly imported from a sibling module)"""
    if not isinstance(e, ast.Name):
        return None
    b = _module_binding(repo, mod, e.id)
    if not b:
        return None
    r = _re_call(repo, b[0], b[1])
    if r is None or not (isinstance(b[1], ast.Call) and isinstance(b[1].func, ast.Attribute) and b[1].func.attr == "compile"):
        return None
    return Regex(e.id, r[0], r[1], b[1], b[0])


# ------------------------------------------------------------------------------------------------ def-use helpers
def _targets(st: ast.AST) -> list[ast.AST]:
    if isinstance(st, ast.Assign):
        return list(st.targets)
    if isinstance(st, (ast.AnnAssign, ast.AugAssign)):
        return [st.target]
    return []


def local_defs(fn: ast.AST, name: str) -> list[ast.AST]:
    """value expressions of the bindings of the local `name` in fn (a tuple-unpacking binds each target to the whole value)"""
    out = []
    for st in own_nodes(fn):
        v = getattr(st, "value", None)
        if v is None:
            continue
        for t in _targets(st):
            if any(isinstance(x, ast.Name) and x.id == name for x in ast.walk(t)) and not isinstance(t, (ast.Subscript, ast.Attribute)):
                out.append(v)
    return out


def closure_exprs(fn: ast.AST, e: ast.AST) -> list[ast.AST]:
    """e plus, transitively, the expressions the local names read in it are bound to in fn"""
    out, seen, todo = [e], set(), [e]
    while todo:
        x = todo.pop()
        for n in ast.walk(x):
            if isinstance(n, ast.Name) and isinstance(n.ctx, ast.Load) and n.id not in seen:
                seen.add(n.id)
                for v in local_defs(fn, n.id):
                    out.append(v)
                    todo.append(v)
    return out


def params(fn: ast.AST) -> list[str]:
    a = fn.args  # type: ignore[attr-defined]
    return [x.arg for x in a.posonlyargs + a.args]


def add_leaves(e: ast.AST) -> list[ast.AST]:
    """operands of a `+` chain"""
    if isinstance(e, ast.BinOp) and isinstance(e.op, ast.Add):
        return add_leaves(e.left) + add_leaves(e.right)
    return [e]


# ------------------------------------------------------------------------------------------------ third layer (rules v-z)
def attr_reads(fn: ast.AST, attr: str) -> list[tuple]:
    """(expression, normalised receiver) of every read of the attribute `attr` in fn: `X.attr` and `getattr(X, "attr"[, default])`"""
    out = []
    for n in own_nodes(fn):
        if isinstance(n, ast.Attribute) and n.attr == attr and isinstance(n.ctx, ast.Load):
            out.append((n, norm(n.value)))
        elif isinstance(n, ast.Call) and isinstance(n.func, ast.Name) and n.func.id == "getattr" and len(n.args) >= 2 \
                and isinstance(n.args[1], ast.Constant) and n.args[1].value == attr:
            out.append((n, norm(n.args[0])))
    return out


def positive_guards(mod: Module, fn: ast.AST, node: ast.AST) -> list[ast.AST]:
    """the expressions known to be true when `node` is evaluated, as far as the shape of the code says: tests of the enclosing `if` / conditional
    expressions on whose true side the node stands, earlier operands of an enclosing `and`, the operand of a `not` test on whose false side it stands,
    and the negated tests of earlier early-exit statements (`if not T: return / raise / continue / break`) of the enclosing blocks.
    A top-level `and` is split into its operands."""
    out: list[ast.AST] = []

    def conj(t: ast.AST, positive: bool, depth: int = 0) -> None:
        # a flag variable stands for the test it was bound to (`is_literal = isinstance(o, Literal)` ... `x if is_literal else y`)
        v = flag_value(mod, fn, t, node) if depth < 4 else None
        if v is not None:
            conj(v, positive, depth + 1)
        if positive:
            if isinstance(t, ast.BoolOp) and isinstance(t.op, ast.And):
                for v in t.values:
                    conj(v, True)
            elif isinstance(t, ast.UnaryOp) and isinstance(t.op, ast.Not):
                conj(t.operand, False)
            else:
                out.append(t)
        else:
            if isinstance(t, ast.UnaryOp) and isinstance(t.op, ast.Not):
                conj(t.operand, True)
            elif isinstance(t, ast.BoolOp) and isinstance(t.op, ast.Or):
                for v in t.values:
                    conj(v, False)

    child = node
    for p in mod.parents(node):
        if isinstance(p, ast.If) and child is not p.test:
            conj(p.test, any(child is s for s in p.body))
        elif isinstance(p, ast.IfExp) and child is not p.test:
            conj(p.test, child is p.body)
        elif isinstance(p, ast.BoolOp):
            k = next(i for i, v in enumerate(p.values) if v is child)
            for v in p.values[:k]:
                conj(v, isinstance(p.op, ast.And))
        # early exits before the statement in the same block
        for field in ("body", "orelse", "finalbody"):
            blk = getattr(p, field, None)
            if isinstance(blk, list) and any(child is s for s in blk):
                for s in blk[: next(i for i, x in enumerate(blk) if x is child)]:
                    if isinstance(s, ast.If) and not s.orelse and s.body and isinstance(s.body[-1], (ast.Return, ast.Raise, ast.Continue, ast.Break)):
                        conj(s.test, False)
        if p is fn:
            break
        child = p
    return out


def flag_value(mod: Module, fn: ast.AST, flag: ast.AST, use: ast.AST) -> Optional[ast.AST]:
    """the expression whose value the local name `flag` still stands for where `use` is evaluated: `flag` is bound exactly once in fn, by a statement that
    precedes (an enclosing statement of) `use` in the same block or an enclosing block - so the binding dominates the use - and nothing the bound expression reads
    is bound again at or after that statement.  None otherwise (not a name, a parameter, bound twice, bound on some paths only, operands re-bound)."""
    v = single_local_def(fn, flag)
    if v is None:
        return None
    st = mod.parent.get(id(v))
    if not isinstance(st, (ast.Assign, ast.AnnAssign)):
        return None
    dominates = False
    child = use
    for p in mod.parents(use):
        for field in ("body", "orelse", "finalbody"):
            blk = getattr(p, field, None)
            if isinstance(blk, list) and any(child is s for s in blk) and any(st is s for s in blk):
                dominates = next(i for i, x in enumerate(blk) if x is st) < next(i for i, x in enumerate(blk) if x is child)
        if dominates or p is fn:
            break
        child = p
    if not dominates:
        return None
    read = {x.id for x in ast.walk(v) if isinstance(x, ast.Name)}
    at = (st.lineno, st.col_offset)
    for x in own_nodes(fn, include_nested=True):
        if isinstance(x, ast.Name) and x.id in read and isinstance(x.ctx, (ast.Store, ast.Del)) and (x.lineno, x.col_offset) >= at:
            return None
        if isinstance(x, (ast.Global, ast.Nonlocal)) and read & set(x.names):
            return None
    return v


def bound_arg(call: ast.Call, callee: ast.AST, param: str, bound_method: bool) -> Optional[ast.AST]:
    """the expression a call site binds to the parameter `param` of callee (None: the call leaves it to the default)"""
    for k in call.keywords:
        if k.arg == param:
            return k.value
    ps = params(callee)
    if bound_method and ps:
        ps = ps[1:]
    if param in ps:
        i = ps.index(param)
        if i < len(call.args) and not any(isinstance(a, ast.Starred) for a in call.args[: i + 1]):
            return call.args[i]
    return None


def flag_sources(fn: ast.AST, e: ast.AST) -> tuple:
    """(truth constants, names) that the value of e is computed from by boolean operators, comparisons and conditional expressions, following local names to
    their bindings in fn.  Calls are opaque: what a call returns is not `written down` by the caller, whatever its arguments are."""
    consts: list = []
    names: set = set()
    todo = [e]
    while todo:
        stack = [todo.pop()]
        while stack:
            n = stack.pop()
            if isinstance(n, (ast.Call, ast.Lambda, ast.ListComp, ast.SetComp, ast.DictComp, ast.GeneratorExp)):
                continue
            if isinstance(n, ast.Constant) and isinstance(n.value, bool):
                consts.append(n)
            if isinstance(n, ast.Name) and isinstance(n.ctx, ast.Load) and n.id not in names:
                names.add(n.id)
                todo.extend(local_defs(fn, n.id))
            stack.extend(ast.iter_child_nodes(n))
    return consts, names


def caller_constant(mods: list, fn_name: str, callee: ast.AST, param: str, depth: int = 0, seen: Optional[set] = None) -> Optional[tuple]:
    """does the value of `param` of the method `fn_name` go back to a truth constant that a call site writes down?  Follows, through the call sites
    `<x>.fn_name(...)` in `mods`, the expression bound to the parameter, the local bindings it reads in the caller, and the caller's own parameters
    (three levels).  Returns (module, qualified caller, constant expression) or None."""
    seen = seen if seen is not None else set()
    if depth > 3 or (fn_name, param) in seen:
        return None
    seen.add((fn_name, param))
    for m in mods:
        for q, f in m.functions():
            for c in own_nodes(f):
                if not (isinstance(c, ast.Call) and isinstance(c.func, ast.Attribute) and c.func.attr == fn_name):
                    continue
                e = bound_arg(c, callee, param, True)
                if e is None:
                    continue
                consts, names = flag_sources(f, e)
                if consts:
                    return m, q, consts[0]
                for p in params(f)[1:] if "." in q else params(f):
                    if p in names:
                        r = caller_constant(mods, f.name, f, p, depth + 1, seen)  # type: ignore[attr-defined]
                        if r is not None:
                            return r
    return None


def alternatives(mod: Module, fn: ast.AST) -> Iterator[tuple]:
    """(node, test, value if true, value if false) of every two-way selection of a value in fn: a conditional expression, or an `if`/`else`
    whose two sides bind the same name (the last binding of each side counts) or both return"""
    for n in own_nodes(fn):
        if isinstance(n, ast.IfExp):
            yield n, n.test, n.body, n.orelse
        elif isinstance(n, ast.If) and n.orelse:
            def binds(blk):
                d = {}
                for st in blk:
                    if isinstance(st, ast.Assign) and len(st.targets) == 1 and isinstance(st.targets[0], ast.Name):
                        d[st.targets[0].id] = st.value
                    elif isinstance(st, ast.AnnAssign) and isinstance(st.target, ast.Name) and st.value is not None:
                        d[st.target.id] = st.value
                    elif isinstance(st, ast.Return) and st.value is not None:
                        d["<return>"] = st.value
                return d
            a, b = binds(n.body), binds(n.orelse)
            for k in a:
                if k in b:
                    yield n, n.test, a[k], b[k]


# ------------------------------------------------------------------------------------------------ output side: how text is assembled
def resolve_function(repo: Repo, mod: Module, name: str, depth: int = 0) -> Optional[tuple]:
    """(module, FunctionDef) that the bare name `name` denotes in mod: a module-level def, or one imported with `from m import name`"""
    if depth > 4:
        return None
    d = mod.defs.get(name)
    if isinstance(d, (ast.FunctionDef, ast.AsyncFunctionDef)):
        return mod, d
    if d is not None:
        return None
    for st in ast.walk(mod.tree):
        if isinstance(st, ast.ImportFrom):
            for a in st.names:
                if (a.asname or a.name) == name:
                    if st.level:
                        pkg = mod.name.split(".")
                        if not mod.rel.endswith("__init__.py"):
                            pkg = pkg[:-1]
                        pkg = pkg[: len(pkg) - (st.level - 1)]
                        target = ".".join(pkg + ([st.module] if st.module else []))
                    else:
                        target = st.module or ""
                    if target in repo.modules:
                        return resolve_function(repo, repo.modules[target], a.name, depth + 1)
    return None


def format_parts(e: ast.AST) -> Optional[tuple]:
    """(constant text pieces, slot expressions) of an expression that assembles a string from a template written in the source: `'T' % x`, `'T' % (x, y)`
    (conversions %s only), an f-string (slots without format spec, conversion none or !s), `'T'.format(x, y)` (auto-numbered {} only) and a `+` chain of string
    constants and values.  len(pieces) == len(slots) + 1.  None: not such an expression (or a template this reading does not cover)."""
    if isinstance(e, ast.JoinedStr):
        texts, slots = [""], []
        for v in e.values:
            if isinstance(v, ast.Constant) and isinstance(v.value, str):
                texts[-1] += v.value
            elif isinstance(v, ast.FormattedValue) and v.format_spec is None and v.conversion in (-1, 115):
                slots.append(v.value)
                texts.append("")
            else:
                return None
        return texts, slots
    if isinstance(e, ast.BinOp) and isinstance(e.op, ast.Mod) and isinstance(e.left, ast.Constant) and isinstance(e.left.value, str):
        texts = e.left.value.split("%s")
        if any("%" in t.replace("%%", "") for t in texts):
            return None
        slots = list(e.right.elts) if isinstance(e.right, ast.Tuple) else [e.right]
        if len(slots) != len(texts) - 1 or any(isinstance(s_, ast.Starred) for s_ in slots):
            return None
        return [t.replace("%%", "%") for t in texts], slots
    if isinstance(e, ast.Call) and isinstance(e.func, ast.Attribute) and e.func.attr == "format" and isinstance(e.func.value, ast.Constant) \
            and isinstance(e.func.value.value, str) and not e.keywords:
        texts = e.func.value.value.split("{}")
        if any("{" in t.replace("{{", "") or "}" in t.replace("}}", "") for t in texts):
            return None
        if len(e.args) != len(texts) - 1 or any(isinstance(s_, ast.Starred) for s_ in e.args):
            return None
        return [t.replace("{{", "{").replace("}}", "}") for t in texts], list(e.args)
    if isinstance(e, ast.BinOp) and isinstance(e.op, ast.Add):
        texts, slots = [""], []
        for leaf in add_leaves(e):
            if isinstance(leaf, ast.Constant) and isinstance(leaf.value, str):
                texts[-1] += leaf.value
            elif isinstance(leaf, ast.Constant):
                return None
            else:
                slots.append(leaf)
                texts.append("")
        return (texts, slots) if slots and any(texts) else None
    return None


def quoted_slot(e: ast.AST) -> Optional[ast.AST]:
    """the value an expression puts between two double quotes and nothing else: `'"%s"' % v`, f'"{v}"', '"' + v + '"', '"{}"'.format(v)"""
    fp = format_parts(e)
    if fp is not None and fp[0] == ['"', '"']:
        return fp[1][0]
    return None


def single_local_def(fn: ast.AST, e: ast.AST) -> Optional[ast.AST]:
    """the value of the one binding of the local name e in fn (None: not a name, a parameter, bound more than once or by a loop / with / unpacking)"""
    if not isinstance(e, ast.Name):
        return None
    vals = []
    for st in own_nodes(fn):
        if isinstance(st, ast.Name) and st.id == e.id and isinstance(st.ctx, (ast.Store, ast.Del)):
            vals.append(st)
    if len(vals) != 1:
        return None
    for st in own_nodes(fn):
        if isinstance(st, ast.Assign) and len(st.targets) == 1 and st.targets[0] is vals[0]:
            return st.value
        if isinstance(st, ast.AnnAssign) and st.target is vals[0] and st.value is not None:
            return st.value
    return None


def replace_calls(e: ast.AST) -> tuple:
    """X.replace(a, b).replace(c, d) with constant arguments -> (X, [(a, b), (c, d)], [the Call nodes])"""
    pairs, calls, cur = [], [], e
    while isinstance(cur, ast.Call) and isinstance(cur.func, ast.Attribute) and cur.func.attr == "replace" and len(cur.args) == 2 and not cur.keywords \
            and all(isinstance(a, ast.Constant) and isinstance(a.value, str) for a in cur.args):
        pairs.append((cur.args[0].value, cur.args[1].value))  # type: ignore[attr-defined]
        calls.append(cur)
        cur = cur.func.value
    pairs.reverse()
    return cur, pairs, calls


def _table_as_written(repo: Repo, mod: Module, fn: Optional[ast.AST], e: ast.AST, depth: int = 0) -> Optional[list]:
    """[(character, replacement text or None)] of a constant table handed to str.translate: str.maketrans({..}) / str.maketrans(x, y[, z]) of constants, a dict
    display keyed by code points (int constants / ord('c')), or a local / module-level name bound once to one.  None: not foldable."""
    if depth > 6:
        return None
    if isinstance(e, ast.Name):
        if fn is not None:
            v = single_local_def(fn, e)
            if v is not None:
                return _table_as_written(repo, mod, fn, v, depth + 1)
            a = fn.args  # type: ignore[attr-defined]
            if e.id in {x.arg for x in a.posonlyargs + a.args + a.kwonlyargs} or any(isinstance(n, ast.Name) and n.id == e.id and isinstance(n.ctx, ast.Store) for n in own_nodes(fn)):
                return None  # a parameter, or a local this reading does not follow
        b = _module_binding(repo, mod, e.id)
        return _table_as_written(repo, b[0], None, b[1], depth + 1) if b else None

    def key(k: Optional[ast.AST], ordinals_only: bool) -> Optional[str]:
        if isinstance(k, ast.Constant) and isinstance(k.value, int) and not isinstance(k.value, bool) and 0 <= k.value <= MAXCP:
            return chr(k.value)
        if isinstance(k, ast.Call) and isinstance(k.func, ast.Name) and k.func.id == "ord" and len(k.args) == 1:
            s = const_str(repo, mod, k.args[0])
            return s if s is not None and len(s) == 1 else None
        if not ordinals_only and k is not None:
            s = const_str(repo, mod, k)
            return s if s is not None and len(s) == 1 else None
        return None

    def table(d: ast.Dict, ordinals_only: bool) -> Optional[list]:
        out = []
        for k, v in zip(d.keys, d.values):
            ks = key(k, ordinals_only)
            if ks is None:
                return None
            if isinstance(v, ast.Constant) and v.value is None:
                out.append((ks, None))
            elif isinstance(v, ast.Constant) and isinstance(v.value, int) and not isinstance(v.value, bool):
                out.append((ks, chr(v.value)))
            else:
                vs = const_str(repo, mod, v)
                if vs is None:
                    return None
                out.append((ks, vs))
        return out

    if isinstance(e, ast.Dict):
        return table(e, True)  # str.translate looks code points up: a key that is a character never matches
    if isinstance(e, ast.Call) and isinstance(e.func, ast.Attribute) and e.func.attr == "maketrans" and norm(e.func.value) in ("str", "bytes") and not e.keywords:
        if len(e.args) == 1:
            d = e.args[0]
            if isinstance(d, ast.Name):
                d2 = single_local_def(fn, d) if fn is not None else None
                if d2 is None:
                    b = _module_binding(repo, mod, d.id)
                    d2 = b[1] if b and b[0] is mod else None
                d = d2  # type: ignore[assignment]
            return table(d, False) if isinstance(d, ast.Dict) else None
        if len(e.args) in (2, 3):
            vals = [const_str(repo, mod, a) for a in e.args]
            if any(v is None for v in vals) or len(vals[0]) != len(vals[1]):  # type: ignore[arg-type]
                return None
            out = [(a, b_) for a, b_ in zip(vals[0], vals[1])]  # type: ignore[arg-type]
            if len(vals) == 3:
                out = [(a, b_) for a, b_ in out if a not in vals[2]] + [(c, None) for c in vals[2]]  # type: ignore[operator,union-attr]
            return out
    return None


# A table can be written in many ways (a dict display, dict(pairs), dict(zip(..)), a comprehension over a module-level tuple of pairs, a union of two
# tables ...).  What the rule needs is the MAPPING the expression denotes, so the expression is folded: a small evaluator of constant expressions - constants,
# displays, comprehensions over constants, names bound once (locally or at module level, never mutated) and a closed list of side-effect-free builtins applied
# to such values.  Only analyser-side Python values are computed; nothing of the analysed package is imported or called.
class _NotConstant(Exception):
    pass


_MUTATORS = {"update", "pop", "popitem", "setdefault", "clear", "append", "extend", "insert", "remove", "sort", "reverse", "add", "discard", "__setitem__", "__delitem__"}


def _mutated(mod: Module, name: str) -> bool:
    """is the object bound to the module-level name changed in place anywhere in the module (item store / delete, augmented assignment, a mutating method)?"""
    for n in ast.walk(mod.tree):
        if isinstance(n, (ast.Subscript, ast.Attribute)) and isinstance(n.ctx, (ast.Store, ast.Del)) and isinstance(n.value, ast.Name) and n.value.id == name:
            return True
        if isinstance(n, ast.AugAssign) and any(isinstance(x, ast.Name) and x.id == name for x in ast.walk(n.target)):
            return True
        if isinstance(n, ast.Call) and isinstance(n.func, ast.Attribute) and n.func.attr in _MUTATORS and isinstance(n.func.value, ast.Name) and n.func.value.id == name:
            return True
        if isinstance(n, ast.Global) and name in n.names:
            return True
    return False


_PURE_BUILTINS = {"dict": dict, "list": list, "tuple": tuple, "set": set, "frozenset": frozenset, "sorted": sorted, "reversed": lambda x: list(reversed(x)),
                  "zip": lambda *a: list(zip(*a)), "enumerate": lambda *a: list(enumerate(*a)), "ord": ord, "chr": chr, "str": str, "len": len, "int": int,
                  "min": min, "max": max}
_PURE_METHODS = {dict: {"items", "keys", "values", "get", "copy"}, str: {"join", "upper", "lower", "format", "split", "strip", "replace", "encode", "maketrans"},
                 tuple: {"index", "count"}, list: {"index", "count", "copy"}, frozenset: {"union"}, set: {"union", "copy"}, bytes: {"decode"}}
_CONST_TYPES = (str, bytes, int, float, bool, type(None))


class ConstFolder:
    def __init__(self, repo: Repo, budget: int = 20000):
        self.repo, self.budget = repo, budget

    def fold(self, mod: Module, fn: Optional[ast.AST], e: ast.AST):
        """the value of e, or _NotConstant"""
        return self._ev(mod, fn, e, {}, 0)

    def _name(self, mod: Module, fn: Optional[ast.AST], e: ast.Name, env: dict, depth: int):
        if e.id in env:
            return env[e.id]
        if fn is not None:
            v = single_local_def(fn, e)
            if v is not None:
                return self._ev(mod, fn, v, {}, depth + 1)
            a = fn.args  # type: ignore[attr-defined]
            if e.id in {x.arg for x in a.posonlyargs + a.args + a.kwonlyargs} or (a.vararg and a.vararg.arg == e.id) or (a.kwarg and a.kwarg.arg == e.id) \
                    or any(isinstance(n, ast.Name) and n.id == e.id and isinstance(n.ctx, ast.Store) for n in own_nodes(fn)):
                raise _NotConstant(e.id)
        b = _module_binding(self.repo, mod, e.id)
        if not b or _mutated(mod, e.id):
            raise _NotConstant(e.id)
        if b[0] is not mod:  # imported: the name it is bound to where it is defined must not be changed in place there either
            for st in b[0].tree.body:
                if getattr(st, "value", None) is b[1] and any(_mutated(b[0], x.id) for t in _targets(st) for x in ast.walk(t) if isinstance(x, ast.Name)):
                    raise _NotConstant(e.id)
        return self._ev(b[0], None, b[1], {}, depth + 1)

    def _bind(self, target: ast.AST, value, env: dict) -> None:
        if isinstance(target, ast.Name):
            env[target.id] = value
        elif isinstance(target, (ast.Tuple, ast.List)) and not any(isinstance(t, ast.Starred) for t in target.elts):
            vals = list(value)
            if len(vals) != len(target.elts):
                raise _NotConstant("unpack")
            for t, v in zip(target.elts, vals):
                self._bind(t, v, env)
        else:
            raise _NotConstant("target")

    def _comp(self, mod, fn, gens: list, env: dict, depth: int, emit) -> None:
        if not gens:
            emit(env)
            return
        g = gens[0]
        if g.is_async:
            raise _NotConstant("async")
        for item in self._iter(self._ev(mod, fn, g.iter, env, depth + 1)):
            env2 = dict(env)
            self._bind(g.target, item, env2)
            if all(self._ev(mod, fn, c, env2, depth + 1) for c in g.ifs):
                self._comp(mod, fn, gens[1:], env2, depth, emit)

    @staticmethod
    def _iter(v):
        if isinstance(v, (str, bytes, tuple, list, dict, set, frozenset)):
            return list(v)
        raise _NotConstant("not iterable")

    def _ev(self, mod: Module, fn: Optional[ast.AST], e: ast.AST, env: dict, depth: int):
        self.budget -= 1
        if self.budget < 0 or depth > 40:
            raise _NotConstant("budget")
        ev = lambda x, env_=env: self._ev(mod, fn, x, env_, depth + 1)  # noqa: E731
        if isinstance(e, ast.Constant):
            if isinstance(e.value, _CONST_TYPES):
                return e.value
            raise _NotConstant("constant")
        if isinstance(e, ast.Name):
            if not isinstance(e.ctx, ast.Load):
                raise _NotConstant("store")
            return self._name(mod, fn, e, env, depth)
        if isinstance(e, (ast.Tuple, ast.List, ast.Set)):
            out: list = []
            for x in e.elts:
                if isinstance(x, ast.Starred):
                    out.extend(self._iter(ev(x.value)))
                else:
                    out.append(ev(x))
            return tuple(out) if isinstance(e, ast.Tuple) else out if isinstance(e, ast.List) else set(out)
        if isinstance(e, ast.Dict):
            d: dict = {}
            for k, v in zip(e.keys, e.values):
                if k is None:
                    inner = ev(v)
                    if not isinstance(inner, dict):
                        raise _NotConstant("**")
                    d.update(inner)
                else:
                    d[ev(k)] = ev(v)
            return d
        if isinstance(e, ast.JoinedStr):
            parts = []
            for v in e.values:
                if isinstance(v, ast.FormattedValue):
                    if v.format_spec is not None or v.conversion not in (-1, 115):
                        raise _NotConstant("format spec")
                    parts.append(str(ev(v.value)))
                else:
                    parts.append(str(ev(v)))
            return "".join(parts)
        if isinstance(e, ast.IfExp):
            return ev(e.body) if ev(e.test) else ev(e.orelse)
        if isinstance(e, ast.BoolOp):
            val = None
            for x in e.values:
                val = ev(x)
                if bool(val) != isinstance(e.op, ast.And):
                    return val
            return val
        if isinstance(e, ast.UnaryOp):
            v = ev(e.operand)
            if isinstance(e.op, ast.Not):
                return not v
            if isinstance(e.op, ast.USub) and isinstance(v, (int, float)):
                return -v
            raise _NotConstant("unary")
        if isinstance(e, ast.Compare):
            left = ev(e.left)
            for op, right_e in zip(e.ops, e.comparators):
                right = ev(right_e)
                try:
                    r = {ast.Eq: lambda a, b: a == b, ast.NotEq: lambda a, b: a != b, ast.In: lambda a, b: a in b, ast.NotIn: lambda a, b: a not in b,
                         ast.Lt: lambda a, b: a < b, ast.LtE: lambda a, b: a <= b, ast.Gt: lambda a, b: a > b, ast.GtE: lambda a, b: a >= b,
                         ast.Is: lambda a, b: a is b, ast.IsNot: lambda a, b: a is not b}[type(op)](left, right)
                except (TypeError, KeyError):
                    raise _NotConstant("compare") from None
                if not r:
                    return False
                left = right
            return True
        if isinstance(e, ast.BinOp):
            a, b = ev(e.left), ev(e.right)
            try:
                if isinstance(e.op, ast.Add) and type(a) is type(b) and isinstance(a, (str, bytes, tuple, list, int)):
                    return a + b
                if isinstance(e.op, ast.BitOr) and type(a) is type(b) and isinstance(a, (dict, set, frozenset)):
                    return a | b
                if isinstance(e.op, ast.Mod) and isinstance(a, str):
                    return a % b
                if isinstance(e.op, ast.Mult) and isinstance(a, (str, tuple, list)) and isinstance(b, int) and 0 <= b <= 64:
                    return a * b
            except (TypeError, ValueError):
                pass
            raise _NotConstant("binop")
        if isinstance(e, ast.Subscript):
            v, k = ev(e.value), (None if isinstance(e.slice, ast.Slice) else ev(e.slice))
            if isinstance(e.slice, ast.Slice):
                lo, hi, st = [None if x is None else ev(x) for x in (e.slice.lower, e.slice.upper, e.slice.step)]
                k = slice(lo, hi, st)
                if not isinstance(v, (str, bytes, tuple, list)):
                    raise _NotConstant("slice")
            try:
                return v[k]
            except Exception:
                raise _NotConstant("subscript") from None
        if isinstance(e, (ast.ListComp, ast.SetComp, ast.GeneratorExp)):
            acc: list = []
            self._comp(mod, fn, e.generators, env, depth, lambda env_: acc.append(self._ev(mod, fn, e.elt, env_, depth + 1)))
            return set(acc) if isinstance(e, ast.SetComp) else acc
        if isinstance(e, ast.DictComp):
            dd: dict = {}

            def put(env_):
                k_ = self._ev(mod, fn, e.key, env_, depth + 1)
                dd[k_] = self._ev(mod, fn, e.value, env_, depth + 1)
            self._comp(mod, fn, e.generators, env, depth, put)
            return dd
        if isinstance(e, ast.Call):
            if any(isinstance(a_, ast.Starred) for a_ in e.args) or any(k.arg is None for k in e.keywords):
                raise _NotConstant("star args")
            f = e.func

            def unshadowed(name: str) -> bool:
                return name not in env and not (fn is not None and local_defs(fn, name)) and _module_binding(self.repo, mod, name) is None and name not in mod.defs

            if isinstance(f, ast.Name) and f.id == "map" and unshadowed("map") and len(e.args) >= 2 and not e.keywords and isinstance(e.args[0], ast.Name) \
                    and e.args[0].id in _PURE_BUILTINS and unshadowed(e.args[0].id):
                its = [self._iter(ev(a_)) for a_ in e.args[1:]]
                try:
                    return [_PURE_BUILTINS[e.args[0].id](*xs) for xs in zip(*its)]
                except Exception:
                    raise _NotConstant("map failed") from None
            args = [ev(a_) for a_ in e.args]
            kw = {k.arg: ev(k.value) for k in e.keywords}
            try:
                if isinstance(f, ast.Name) and f.id in _PURE_BUILTINS and unshadowed(f.id):
                    if kw and f.id != "dict":
                        raise _NotConstant("keywords")
                    r = _PURE_BUILTINS[f.id](*args, **kw)
                    return list(r) if f.id in ("sorted",) else r
                if isinstance(f, ast.Attribute):
                    if isinstance(f.value, ast.Name) and f.value.id in ("str", "bytes") and f.attr == "maketrans" and not kw and f.value.id not in env \
                            and _module_binding(self.repo, mod, f.value.id) is None:
                        return (str if f.value.id == "str" else bytes).maketrans(*args)
                    recv = ev(f.value)
                    if any(isinstance(recv, t) and f.attr in names for t, names in _PURE_METHODS.items()) and not kw:
                        r = getattr(recv, f.attr)(*args)
                        return list(r) if f.attr in ("items", "keys", "values") else r
            except _NotConstant:
                raise
            except Exception:
                raise _NotConstant("call failed") from None
            raise _NotConstant("call")
        raise _NotConstant(type(e).__name__)


def denoted_translation_table(repo: Repo, mod: Module, fn: Optional[ast.AST], e: ast.AST) -> Optional[list]:
    """[(character, replacement text or None)] of the mapping that the argument of str.translate DENOTES, however it is written (see ConstFolder).
    str.translate looks code points up: a key that is not an int never matches and does not count.  None: not a constant mapping."""
    try:
        v = ConstFolder(repo).fold(mod, fn, e)
    except (_NotConstant, RecursionError):
        return None
    if not isinstance(v, dict):
        return None
    out = []
    for k, r in v.items():
        if isinstance(k, bool) or not isinstance(k, int) or not 0 <= k <= MAXCP:
            continue
        if r is None or isinstance(r, str):
            out.append((chr(k), r))
        elif isinstance(r, int) and not isinstance(r, bool) and 0 <= r <= MAXCP:
            out.append((chr(k), chr(r)))
        else:
            return None
    return out


def const_translation_table(repo: Repo, mod: Module, fn: Optional[ast.AST], e: ast.AST) -> Optional[list]:
    """the table handed to str.translate, as [(character, replacement text or None)]: read off the way it is written where that is one of the plain spellings
    (which also shows a key written twice), else the mapping the expression denotes"""
    if isinstance(e, ast.Name) and not (fn is not None and local_defs(fn, e.id)) and _mutated(mod, e.id):
        return None  # a module-level table that is changed in place after it was built: what it maps when translate() runs is not what its binding says
    t = _table_as_written(repo, mod, fn, e)
    return t if t is not None else denoted_translation_table(repo, mod, fn, e)


class EscapeMap:
    """how a text is escaped before it is put between quotes: a chain of str.replace calls (applied one after the other: the order matters) or one
    str.translate with a constant table (one pass over the text: an escape is never escaped again)"""

    def __init__(self, kind: str, root: ast.AST, pairs: Optional[list], calls: list, node: ast.AST):
        self.kind, self.root, self.pairs, self.calls, self.node = kind, root, pairs, calls, node


def escape_map(repo: Repo, mod: Module, fn: ast.AST, e: ast.AST, depth: int = 0) -> Optional[EscapeMap]:
    """the EscapeMap that the expression e applies to a text, following a local name that is bound once; None if e is not such an application"""
    if depth > 4:
        return None
    v = single_local_def(fn, e)
    if v is not None:
        return escape_map(repo, mod, fn, v, depth + 1)
    root, pairs, calls = replace_calls(e)
    if pairs:
        inner = single_local_def(fn, root)
        if inner is not None:
            em = escape_map(repo, mod, fn, inner, depth + 1)
            if em is not None and em.kind == "chain":
                return EscapeMap("chain", em.root, (em.pairs or []) + pairs, em.calls + calls, e)
        return EscapeMap("chain", root, pairs, calls, e)
    if isinstance(e, ast.Call) and isinstance(e.func, ast.Attribute) and e.func.attr == "translate" and len(e.args) == 1 and not e.keywords:
        return EscapeMap("table", e.func.value, const_translation_table(repo, mod, fn, e.args[0]), [], e)
    return None


def is_static(fn: ast.AST) -> bool:
    return any(norm(d).split(".")[-1] == "staticmethod" for d in getattr(fn, "decorator_list", []))


# ------------------------------------------------------------------------------------------------ roles found from what a public method writes
def template_texts(e: ast.AST) -> Optional[tuple]:
    """(constant text, [interpolated expressions]) of an expression that assembles a string around values, in any spelling: `T % x`, an f-string,
    `T.format(..)`, a `+` chain with at least one string constant.  None: e is not such an expression."""
    if isinstance(e, ast.JoinedStr):
        slots = [v.value for v in e.values if isinstance(v, ast.FormattedValue)]
        return ("".join(v.value for v in e.values if isinstance(v, ast.Constant) and isinstance(v.value, str)), slots) if slots else None
    if isinstance(e, ast.BinOp) and isinstance(e.op, ast.Mod) and isinstance(e.left, ast.Constant) and isinstance(e.left.value, str):
        return e.left.value, (list(e.right.elts) if isinstance(e.right, ast.Tuple) else [e.right])
    if isinstance(e, ast.Call) and isinstance(e.func, ast.Attribute) and e.func.attr in ("format", "format_map") and isinstance(e.func.value, ast.Constant) \
            and isinstance(e.func.value.value, str):
        return e.func.value.value, list(e.args) + [k.value for k in e.keywords]
    if isinstance(e, ast.BinOp) and isinstance(e.op, ast.Add):
        leaves = add_leaves(e)
        consts = [x for x in leaves if isinstance(x, ast.Constant) and isinstance(x.value, str)]
        rest = [x for x in leaves if not isinstance(x, ast.Constant)]
        return ("".join(c.value for c in consts), rest) if consts and rest else None
    return None


def producers_of_written_text(mod: Module, fn: ast.AST, methods: dict, is_the_text) -> Optional[list]:
    """the methods of the class (names, in order of discovery) whose results end up in the text that `fn` assembles around a template chosen by
    `is_the_text(constant text of the template)`: the interpolated values are followed backwards through the loops they are drawn from (a `for` target of an
    enclosing loop stands for the iterable) and the locals they are bound to in fn, to calls `self.m(..)`; methods those call through self belong to them.
    None: fn assembles no such text.  The methods are found by this role, not by their names."""
    todo: list = []
    found_site = False
    for n in own_nodes(fn):
        tt = template_texts(n)
        if tt is None or not is_the_text(tt[0]):
            continue
        found_site = True
        todo.extend(tt[1])
        loop_targets = {}
        for p in mod.parents(n):
            if isinstance(p, (ast.For, ast.AsyncFor)):
                for x in ast.walk(p.target):
                    if isinstance(x, ast.Name):
                        loop_targets.setdefault(x.id, p.iter)
            elif isinstance(p, ast.comprehension):
                pass
            if p is fn:
                break
        for s_ in tt[1]:
            for x in ast.walk(s_):
                if isinstance(x, ast.Name) and x.id in loop_targets:
                    todo.append(loop_targets[x.id])
    if not found_site:
        return None
    out: list = []

    def add_calls(scope_fn: ast.AST, exprs: list, depth: int) -> None:
        for e in exprs:
            for v in closure_exprs(scope_fn, e):
                for c in ast.walk(v):
                    if isinstance(c, ast.Call) and isinstance(c.func, ast.Attribute) and isinstance(c.func.value, ast.Name) and c.func.value.id == "self" \
                            and c.func.attr in methods and c.func.attr not in out:
                        out.append(c.func.attr)
                        if depth < 3:
                            m = methods[c.func.attr]
                            add_calls(m, [x for x in own_nodes(m) if isinstance(x, ast.Call)], depth + 1)

    add_calls(fn, todo, 0)
    return out


# ------------------------------------------------------------------------------------------------ dispatch on the class of the first argument
def _stdlib_callable(mod: Module, e: ast.AST, module: str, name: str) -> bool:
    """the expression e denotes `module.name` of the standard library in mod: `from module import name [as x]` then x, or `import module [as m]` then m.name"""
    for st in ast.walk(mod.tree):
        if isinstance(st, ast.ImportFrom) and st.module == module and not st.level and isinstance(e, ast.Name):
            if any(a.name == name and (a.asname or a.name) == e.id for a in st.names):
                return mod.defs.get(e.id) is None
        if isinstance(st, ast.Import) and isinstance(e, ast.Attribute) and e.attr == name and isinstance(e.value, ast.Name):
            if any(a.name == module and (a.asname or a.name) == e.value.id for a in st.names):
                return True
    return False


def is_type_dispatcher(mod: Module, fn: ast.AST) -> bool:
    """fn is a generic function that chooses its implementation by the class of its first argument (decorated with functools.singledispatch, and with nothing else:
    another decorator could wrap the dispatch)"""
    decs = getattr(fn, "decorator_list", [])
    return len(decs) == 1 and _stdlib_callable(mod, decs[0], "functools", "singledispatch")


def type_registrations(repo: Repo, mods, dmod: Module, disp: ast.AST) -> Optional[list]:
    """[(module, registered class expression, implementation (module, def), node)] for every implementation registered with the type dispatcher `disp` in the
    modules `mods`: `@disp.register(T) def g`, `@disp.register def g(x: T)`, `disp.register(T, g)`.  None if a use of `disp.register` / `disp.dispatch` /
    `disp.registry` is met that this analysis cannot read (what runs for a class is then unknown)."""
    out: list = []
    for mod in mods:
        r = resolve_function(repo, mod, disp.name)  # type: ignore[attr-defined]
        if r is None or r[1] is not disp:
            continue
        local = None
        for st in ast.walk(mod.tree):
            if isinstance(st, ast.ImportFrom):
                for a in st.names:
                    if a.name == disp.name and (a.asname or a.name) != a.name:  # type: ignore[attr-defined]
                        local = a.asname
        names = {disp.name, local} - {None}  # type: ignore[attr-defined]
        seen: set = set()
        for n in ast.walk(mod.tree):
            if isinstance(n, (ast.FunctionDef, ast.AsyncFunctionDef)):
                for d in n.decorator_list:
                    reg = d.func if isinstance(d, ast.Call) else d
                    if not (isinstance(reg, ast.Attribute) and reg.attr == "register" and isinstance(reg.value, ast.Name) and reg.value.id in names):
                        continue
                    seen.add(id(reg))
                    if len(n.decorator_list) != 1:
                        return None
                    ps = n.args.posonlyargs + n.args.args
                    if isinstance(d, ast.Call):
                        if len(d.args) != 1 or d.keywords:
                            return None
                        out.append((mod, d.args[0], (mod, n), d))
                    elif ps and ps[0].annotation is not None:
                        out.append((mod, ps[0].annotation, (mod, n), d))
                    else:
                        return None
        for n in ast.walk(mod.tree):
            if isinstance(n, ast.Attribute) and isinstance(n.value, ast.Name) and n.value.id in names and id(n) not in seen:
                par = next(iter(mod.parents(n)), None)
                if n.attr == "register" and isinstance(par, ast.Call) and par.func is n and len(par.args) == 2 and not par.keywords and isinstance(par.args[1], ast.Name):
                    impl = resolve_function(repo, mod, par.args[1].id)
                    if impl is None:
                        return None
                    out.append((mod, par.args[0], impl, par))
                elif n.attr in ("register", "registry", "dispatch", "_clear_cache"):
                    return None
    return out


# ------------------------------------------------------------------------------------------------ what a value is computed from, across private callees
def module_callee(mod: Module, call: ast.Call) -> Optional[ast.AST]:
    """the def of mod that a call denotes when that can be read off the source: `f(..)` for a module-level def f; `C.m(..)` for a method m of a class C of
    the module (a static / class method, or the constructor-like use of one); `<expr>.m(..)` when exactly one class of the module defines a method m
    and no module-level def has that name (the receiver is then an instance of that class, or the call is not to this module at all)"""
    fn = call.func
    if isinstance(fn, ast.Name):
        d = mod.defs.get(fn.id)
        return d if isinstance(d, (ast.FunctionDef, ast.AsyncFunctionDef)) else None
    if isinstance(fn, ast.Attribute):
        if isinstance(fn.value, ast.Name) and isinstance(mod.defs.get(fn.value.id), ast.ClassDef):
            d = mod.defs.get("%s.%s" % (fn.value.id, fn.attr))
            return d if isinstance(d, (ast.FunctionDef, ast.AsyncFunctionDef)) else None
        owners = [d for q, d in mod.defs.items() if isinstance(d, (ast.FunctionDef, ast.AsyncFunctionDef)) and "." in q and q.rsplit(".", 1)[1] == fn.attr
                  and isinstance(mod.defs.get(q.rsplit(".", 1)[0]), ast.ClassDef)]
        if len(owners) == 1 and fn.attr.startswith("_") is False and not hasattr(str, fn.attr) and not hasattr(list, fn.attr) and not hasattr(dict, fn.attr):
            return owners[0]
    return None


def deep_closure_exprs(mod: Module, fn: ast.AST, e: ast.AST, depth: int = 3) -> list[ast.AST]:
    """closure_exprs(fn, e), plus - for every call in it of a function of the same module (module_callee) - the expressions that function returns and what
    they are computed from there, transitively to `depth` calls: the expressions whose values can flow into e, wherever the maintainer has put the computation"""
    out: list = []
    seen: set = set()

    def visit(scope: ast.AST, x: ast.AST, d: int) -> None:
        for v in closure_exprs(scope, x):
            if id(v) in seen:
                continue
            seen.add(id(v))
            out.append(v)
            if d <= 0:
                continue
            for c in ast.walk(v):
                if isinstance(c, ast.Call):
                    callee = module_callee(mod, c)
                    if callee is not None and callee is not scope:
                        for r in own_nodes(callee):
                            if isinstance(r, ast.Return) and r.value is not None:
                                visit(callee, r.value, d - 1)

    visit(fn, e, depth)
    return out


def string_pieces(mod: Module, fn: ast.AST, e: ast.AST, depth: int = 4) -> list[ast.AST]:
    """the expressions whose text a string-valued expression e of fn is put together from, as far as the assembly is written in the module: the operands of `+`,
    both arms of a conditional expression / `or`, the slots of an f-string, the elements joined by `<constant>.join(..)` (of a list / tuple display, or of a
    local list with everything appended / extended / added to it), the bindings of a local, and - for a call of a function of the module (module_callee) - what
    its returns are put together from, plus the receiver and the arguments of the call (they are what the callee's parameters stand for); the arguments of a call
    that constructs a class of the module likewise.  Anything else (a subscript, an attribute, a call of something outside the module - its arguments are NOT
    pieces: a splitter takes a string apart) is a leaf."""
    out: list = []
    seen: set = set()

    def elements(scope: ast.AST, x: ast.AST, d: int) -> None:
        if isinstance(x, (ast.List, ast.Tuple)):
            for el in x.elts:
                visit(scope, el.value if isinstance(el, ast.Starred) else el, d)
        elif isinstance(x, ast.Name):
            for v in local_defs(scope, x.id):
                elements(scope, v, d)
            for n in own_nodes(scope):
                if isinstance(n, ast.Call) and isinstance(n.func, ast.Attribute) and isinstance(n.func.value, ast.Name) and n.func.value.id == x.id:
                    if n.func.attr in ("append", "insert") and n.args:
                        visit(scope, n.args[-1], d)
                    elif n.func.attr == "extend" and n.args:
                        elements(scope, n.args[0], d)
        elif isinstance(x, ast.BinOp) and isinstance(x.op, ast.Add):
            elements(scope, x.left, d)
            elements(scope, x.right, d)
        elif isinstance(x, (ast.GeneratorExp, ast.ListComp)):
            visit(scope, x.elt, d)
        else:
            visit(scope, x, d)

    def visit(scope: ast.AST, x: ast.AST, d: int) -> None:
        if (id(scope), id(x)) in seen:
            return
        seen.add((id(scope), id(x)))
        if isinstance(x, ast.BinOp) and isinstance(x.op, ast.Add):
            visit(scope, x.left, d)
            visit(scope, x.right, d)
        elif isinstance(x, ast.IfExp):
            visit(scope, x.body, d)
            visit(scope, x.orelse, d)
        elif isinstance(x, ast.BoolOp):
            for v in x.values:
                visit(scope, v, d)
        elif isinstance(x, ast.JoinedStr):
            for v in x.values:
                if isinstance(v, ast.FormattedValue):
                    visit(scope, v.value, d)
        elif isinstance(x, ast.Name):
            out.append(x)
            key = ("name", id(scope), x.id)
            if key not in seen:
                seen.add(key)
                for v in local_defs(scope, x.id):
                    # a tuple unpacking binds the name to a part of the value: the value is taken apart, not passed on
                    if not any(isinstance(st, ast.Assign) and st.value is v and any(isinstance(t, (ast.Tuple, ast.List)) for t in st.targets) for st in own_nodes(scope)):
                        visit(scope, v, d)
        elif isinstance(x, ast.Call) and isinstance(x.func, ast.Attribute) and x.func.attr == "join" and isinstance(x.func.value, ast.Constant) and len(x.args) == 1:
            elements(scope, x.args[0], d)
        elif isinstance(x, ast.Call) and isinstance(x.func, ast.Name) and x.func.id in ("str", "cast") and x.args:
            visit(scope, x.args[-1], d)
        elif isinstance(x, ast.Call):
            callee = module_callee(mod, x)
            is_ctor = isinstance(x.func, ast.Name) and isinstance(mod.defs.get(x.func.id), ast.ClassDef)
            if (callee is None and not is_ctor) or d <= 0:
                out.append(x)
                return
            if isinstance(x.func, ast.Attribute):
                visit(scope, x.func.value, d)
            for a in list(x.args) + [k.value for k in x.keywords]:
                visit(scope, a.value if isinstance(a, ast.Starred) else a, d)
            if callee is not None and callee is not scope:
                for r in own_nodes(callee):
                    if isinstance(r, ast.Return) and r.value is not None:
                        visit(callee, r.value, d - 1)
        else:
            out.append(x)

    visit(fn, e, depth)
    return out
