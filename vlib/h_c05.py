"""Helpers of check C05 (parser side): constant folding of module-level string / character-set expressions, the table of
regular expressions a module compiles, code-point sets of regex character classes, a bounded language of a regex over a tiny
alphabet, the name-character tables of the W3C grammars, and small def-use helpers.  Only stdlib `ast` / `re._parser` are used;
no pattern is ever matched against anything and nothing of the analysed library is executed."""
from __future__ import annotations

import ast
import re
import re._parser as sre  # type: ignore[import-not-found]
from typing import Iterator, Optional

from vlib.core import AnalysisError, Module, Repo, norm, own_nodes

MAXCP = 0x10FFFF

# ------------------------------------------------------------------------------------------------ code-point sets
Intervals = list  # sorted, disjoint list of (lo, hi)


def iv_norm(iv) -> Intervals:
    out: list = []
    for lo, hi in sorted(iv):
        if out and lo <= out[-1][1] + 1:
            out[-1] = (out[-1][0], max(out[-1][1], hi))
        else:
            out.append((lo, hi))
    return out


def iv_union(a, b) -> Intervals:
    return iv_norm(list(a) + list(b))


def iv_compl(a) -> Intervals:
    out, prev = [], 0
    for lo, hi in iv_norm(a):
        if lo > prev:
            out.append((prev, lo - 1))
        prev = hi + 1
    if prev <= MAXCP:
        out.append((prev, MAXCP))
    return out


def iv_minus(a, b) -> Intervals:
    """a - b"""
    cb = iv_compl(b)
    out = []
    for lo, hi in iv_norm(a):
        for l2, h2 in cb:
            l, h = max(lo, l2), min(hi, h2)
            if l <= h:
                out.append((l, h))
    return iv_norm(out)


def iv_has(a, cp: int) -> bool:
    return any(lo <= cp <= hi for lo, hi in a)


def iv_show(a, limit: int = 6) -> str:
    def one(c: int) -> str:
        return chr(c) if 0x21 <= c <= 0x7E else "U+%04X" % c
    parts = [one(lo) if lo == hi else "%s-%s" % (one(lo), one(hi)) for lo, hi in a[:limit]]
    return " ".join(parts) + (" ..." if len(a) > limit else "")


_CAT_CACHE: dict = {}


def _category(cat, ascii_only: bool) -> Intervals:
    """code points of a regex category escape (\\s \\d \\w and negations) for str patterns"""
    name = str(cat)
    key = (name, ascii_only)
    if key in _CAT_CACHE:
        return _CAT_CACHE[key]
    base = name.replace("CATEGORY_NOT_", "CATEGORY_").replace("CATEGORY_UNI_", "CATEGORY_").replace("CATEGORY_LOC_", "CATEGORY_")
    top = 0x7F if ascii_only else MAXCP
    if base == "CATEGORY_SPACE":
        pred = (lambda c: c in (9, 10, 11, 12, 13, 32)) if ascii_only else (lambda c: chr(c).isspace())
    elif base == "CATEGORY_DIGIT":
        pred = (lambda c: 48 <= c <= 57) if ascii_only else (lambda c: chr(c).isdecimal())
    elif base == "CATEGORY_WORD":
        pred = (lambda c: chr(c).isalnum() or c == 95)
    elif base == "CATEGORY_LINEBREAK":
        pred = lambda c: c == 10  # noqa: E731
    else:
        raise AnalysisError("regex category %s is not modelled" % name)
    iv, start = [], None
    for c in range(top + 1):
        if pred(c):
            if start is None:
                start = c
        elif start is not None:
            iv.append((start, c - 1))
            start = None
    if start is not None:
        iv.append((start, top))
    if "_NOT_" in name:
        iv = iv_compl(iv)
    _CAT_CACHE[key] = iv
    return iv


def class_set(op, av, flags: int) -> Optional[Intervals]:
    """the set of code points one single-character regex item matches (None: not a single-character item)"""
    ascii_only = bool(flags & re.ASCII)
    o = str(op)
    if o == "LITERAL":
        return [(av, av)]
    if o == "NOT_LITERAL":
        return iv_compl([(av, av)])
    if o == "ANY":
        return [(0, MAXCP)] if flags & re.DOTALL else iv_compl([(10, 10)])
    if o == "IN":
        neg, iv = False, []
        for k, v in av:
            ks = str(k)
            if ks == "NEGATE":
                neg = True
            elif ks == "LITERAL":
                iv.append((v, v))
            elif ks == "RANGE":
                iv.append((v[0], v[1]))
            elif ks == "CATEGORY":
                iv.extend(_category(v, ascii_only))
            else:
                raise AnalysisError("regex class item %s is not modelled" % ks)
        iv = iv_norm(iv)
        return iv_compl(iv) if neg else iv
    return None


def is_negated(op, av) -> bool:
    o = str(op)
    return o == "NOT_LITERAL" or (o == "IN" and any(str(k) == "NEGATE" for k, _ in av))


def has_category(op, av) -> bool:
    return str(op) == "IN" and any(str(k) == "CATEGORY" for k, _ in av)


def regex_items(sp) -> Iterator[tuple]:
    """(op, av) of every item of a parsed pattern, outermost first, in pattern order"""
    for op, av in sp:
        yield op, av
        o = str(op)
        if o == "BRANCH":
            for alt in av[1]:
                yield from regex_items(alt)
        elif o in ("SUBPATTERN", "ATOMIC_GROUP"):
            yield from regex_items(av[-1] if o == "SUBPATTERN" else av)
        elif o in ("MAX_REPEAT", "MIN_REPEAT", "POSSESSIVE_REPEAT"):
            yield from regex_items(av[2])
        elif o in ("ASSERT", "ASSERT_NOT"):
            yield from regex_items(av[1])


def bounded_language(sp, flags: int, sigma: tuple, maxlen: int) -> Optional[set]:
    """the strings over `sigma` of length <= maxlen that the pattern matches as a whole (anchors are taken as satisfied);
    None when the pattern uses a construct that is not modelled (look-around, back references)"""

    def cat(a: set, b: set) -> set:
        return {x + y for x in a for y in b if len(x) + len(y) <= maxlen}

    def seq(items) -> Optional[set]:
        cur = {""}
        for op, av in items:
            one = item(op, av)
            if one is None:
                return None
            cur = cat(cur, one)
        return cur

    def item(op, av) -> Optional[set]:
        o = str(op)
        cs = class_set(op, av, flags)
        if cs is not None:
            return {c for c in sigma if iv_has(cs, ord(c))}
        if o == "AT":
            return {""}
        if o == "BRANCH":
            out: set = set()
            for alt in av[1]:
                r = seq(alt)
                if r is None:
                    return None
                out |= r
            return out
        if o == "SUBPATTERN":
            return seq(av[-1])
        if o in ("MAX_REPEAT", "MIN_REPEAT", "POSSESSIVE_REPEAT"):
            lo, hi, body = av
            one = seq(body)
            if one is None:
                return None
            out, power = set(), {""}
            for k in range(0, min(int(hi), int(lo) + maxlen) + 1):
                if k >= lo:
                    out |= power
                power = cat(power, one)
            return out
        return None

    return seq(sp)


# ------------------------------------------------------------------------------------------------ grammar tables
# PN_CHARS_BASE / PN_CHARS_U / PN_CHARS of the N-Triples, N-Quads, Turtle and TriG grammars (the part the grammars share:
# N-Triples adds ':' to PN_CHARS_U, Turtle does not)
PN_CHARS_BASE = iv_norm([(0x41, 0x5A), (0x61, 0x7A), (0xC0, 0xD6), (0xD8, 0xF6), (0xF8, 0x2FF), (0x370, 0x37D), (0x37F, 0x1FFF), (0x200C, 0x200D),
                         (0x2070, 0x218F), (0x2C00, 0x2FEF), (0x3001, 0xD7FF), (0xF900, 0xFDCF), (0xFDF0, 0xFFFD), (0x10000, 0xEFFFF)])
PN_CHARS_U = iv_union(PN_CHARS_BASE, [(0x5F, 0x5F)])
DIGITS = [(0x30, 0x39)]
PN_CHARS = iv_union(PN_CHARS_U, [(0x2D, 0x2D), (0x30, 0x39), (0xB7, 0xB7), (0x300, 0x36F), (0x203F, 0x2040)])


# ------------------------------------------------------------------------------------------------ constant folding
def _module_binding(repo: Repo, mod: Module, name: str, depth: int = 0):
    """(module, value expression) of the single module-level binding of `name`, following `from m import name`"""
    if depth > 4:
        return None
    vals = []
    for st in mod.tree.body:
        if isinstance(st, ast.Assign) and any(isinstance(t, ast.Name) and t.id == name for t in st.targets):
            vals.append(st.value)
        elif isinstance(st, ast.AnnAssign) and isinstance(st.target, ast.Name) and st.target.id == name and st.value is not None:
            vals.append(st.value)
    if len(vals) == 1:
        return mod, vals[0]
    if vals:
        return None
    for st in ast.walk(mod.tree):
        if isinstance(st, ast.ImportFrom):
            for a in st.names:
                if (a.asname or a.name) == name:
                    if st.level:
                        pkg = mod.name.split(".")
                        if not mod.rel.endswith("__init__.py"):
                            pkg = pkg[:-1]
                        pkg = pkg[: len(pkg) - (st.level - 1)]
                        target = ".".join(pkg + ([st.module] if st.module else []))
                    else:
                        target = st.module or ""
                    if target in repo.modules:
                        return _module_binding(repo, repo.modules[target], a.name, depth + 1)
    return None


def const_str(repo: Repo, mod: Module, e: ast.AST, depth: int = 0) -> Optional[str]:
    """value of a string expression built from constants and module-level constant names (+, %, f-strings of constants)"""
    if depth > 8:
        return None
    if isinstance(e, ast.Constant):
        return e.value if isinstance(e.value, str) else None
    if isinstance(e, ast.JoinedStr):
        parts = [const_str(repo, mod, v, depth + 1) if not isinstance(v, ast.FormattedValue) else None for v in e.values]
        return "".join(parts) if all(p is not None for p in parts) else None  # type: ignore[arg-type]
    if isinstance(e, ast.BinOp) and isinstance(e.op, ast.Add):
        a, b = const_str(repo, mod, e.left, depth + 1), const_str(repo, mod, e.right, depth + 1)
        return a + b if a is not None and b is not None else None
    if isinstance(e, ast.BinOp) and isinstance(e.op, ast.Mod):
        a = const_str(repo, mod, e.left, depth + 1)
        rs = e.right.elts if isinstance(e.right, ast.Tuple) else [e.right]
        vals = [const_str(repo, mod, r, depth + 1) for r in rs]
        if a is None or any(v is None for v in vals):
            return None
        try:
            return a % tuple(vals)
        except (TypeError, ValueError):
            return None
    if isinstance(e, ast.Name):
        b = _module_binding(repo, mod, e.id)
        return const_str(repo, b[0], b[1], depth + 1) if b else None
    return None


def const_charset(repo: Repo, mod: Module, e: ast.AST, depth: int = 0) -> Optional[frozenset]:
    """value of a constant collection of strings used on the right of `in`: a set/tuple/list display of constants, set("..."),
    a string constant (its characters), a union of such, or a module-level name bound to one"""
    if depth > 8:
        return None
    if isinstance(e, (ast.Set, ast.Tuple, ast.List)):
        vals = [const_str(repo, mod, x, depth + 1) for x in e.elts]
        return frozenset(vals) if all(v is not None for v in vals) else None  # type: ignore[arg-type]
    if isinstance(e, ast.Constant) and isinstance(e.value, str):
        return frozenset(e.value)
    if isinstance(e, ast.Call) and isinstance(e.func, ast.Name) and e.func.id in ("set", "frozenset") and len(e.args) == 1 and not e.keywords:
        s = const_str(repo, mod, e.args[0], depth + 1)
        if s is not None:
            return frozenset(s)
        return const_charset(repo, mod, e.args[0], depth + 1)
    if isinstance(e, ast.BinOp) and isinstance(e.op, ast.BitOr):
        a, b = const_charset(repo, mod, e.left, depth + 1), const_charset(repo, mod, e.right, depth + 1)
        return a | b if a is not None and b is not None else None
    if isinstance(e, ast.Name):
        b = _module_binding(repo, mod, e.id)
        return const_charset(repo, b[0], b[1], depth + 1) if b else None
    return None


# ------------------------------------------------------------------------------------------------ regex tables
_RE_FUNCS = {"compile", "match", "fullmatch", "search", "sub", "subn", "split", "findall", "finditer"}
_FLAG_NAMES = {"A": re.A, "ASCII": re.A, "S": re.S, "DOTALL": re.S, "I": re.I, "IGNORECASE": re.I, "M": re.M, "MULTILINE": re.M, "X": re.X, "VERBOSE": re.X,
               "U": re.U, "UNICODE": re.U}


class Regex:
    def __init__(self, label: str, pattern: str, flags: int, node: ast.AST, mod: Module):
        self.label, self.pattern, self.node, self.mod = label, pattern, node, mod
        try:
            self.sp = sre.parse(pattern, flags)
        except Exception as e:  # an invalid pattern is not ours to judge
            raise AnalysisError("%s: pattern of %s does not parse: %s" % (mod.rel, label, e))
        self.flags = self.sp.state.flags

    def min_width(self) -> int:
        return int(self.sp.getwidth()[0])


def _re_call(repo: Repo, mod: Module, c: ast.AST) -> Optional[tuple]:
    """(pattern, flags) if c is `re.<fn>(<constant pattern>, ...)`"""
    if not (isinstance(c, ast.Call) and c.args):
        return None
    f = c.func
    if not (isinstance(f, ast.Attribute) and isinstance(f.value, ast.Name) and f.value.id == "re" and f.attr in _RE_FUNCS):
        return None
    pat = const_str(repo, mod, c.args[0])
    if pat is None:
        return None
    flags = 0
    fl = [k.value for k in c.keywords if k.arg == "flags"]
    if f.attr == "compile" and len(c.args) > 1:
        fl.append(c.args[1])
    for fe in fl:
        for n in ast.walk(fe):
            if isinstance(n, ast.Attribute) and n.attr in _FLAG_NAMES:
                flags |= _FLAG_NAMES[n.attr]
    return pat, flags


def module_regexes(repo: Repo, mod: Module) -> list[Regex]:
    """every regular expression the module builds from a constant pattern: `NAME = re.compile(...)` at module level (label NAME)
    and `re.<fn>(<pattern>, ...)` calls inside functions (label = qualified function).  A module-level re.compile whose pattern
    cannot be folded to a constant fails closed."""
    out: list[Regex] = []
    seen: set = set()
    for st in mod.tree.body:
        if isinstance(st, ast.Assign) and len(st.targets) == 1 and isinstance(st.targets[0], ast.Name) and isinstance(st.value, ast.Call):
            f = st.value.func
            if isinstance(f, ast.Attribute) and isinstance(f.value, ast.Name) and f.value.id == "re" and f.attr == "compile":
                r = _re_call(repo, mod, st.value)
                if r is None:
                    raise AnalysisError("%s: the pattern of %s is not a foldable constant" % (mod.rel, st.targets[0].id))
                out.append(Regex(st.targets[0].id, r[0], r[1], st.value, mod))
                seen.add(id(st.value))
    for q, fn in mod.functions():
        for c in own_nodes(fn):
            if id(c) in seen:
                continue
            r = _re_call(repo, mod, c)
            if r is not None:
                seen.add(id(c))
                out.append(Regex(q, r[0], r[1], c, mod))
    return out


def resolve_regex(repo: Repo, mod: Module, e: ast.AST) -> Optional[Regex]:
    """the Regex a Name denotes (module-level `NAME = re.compile(...)`, possibly imported from a sibling module)"""
    if not isinstance(e, ast.Name):
        return None
    b = _module_binding(repo, mod, e.id)
    if not b:
        return None
    r = _re_call(repo, b[0], b[1])
    if r is None or not (isinstance(b[1], ast.Call) and isinstance(b[1].func, ast.Attribute) and b[1].func.attr == "compile"):
        return None
    return Regex(e.id, r[0], r[1], b[1], b[0])


# ------------------------------------------------------------------------------------------------ def-use helpers
def _targets(st: ast.AST) -> list[ast.AST]:
    if isinstance(st, ast.Assign):
        return list(st.targets)
    if isinstance(st, (ast.AnnAssign, ast.AugAssign)):
        return [st.target]
    return []


def local_defs(fn: ast.AST, name: str) -> list[ast.AST]:
    """value expressions of the bindings of the local `name` in fn (a tuple-unpacking binds each target to the whole value)"""
    out = []
    for st in own_nodes(fn):
        v = getattr(st, "value", None)
        if v is None:
            continue
        for t in _targets(st):
            if any(isinstance(x, ast.Name) and x.id == name for x in ast.walk(t)) and not isinstance(t, (ast.Subscript, ast.Attribute)):
                out.append(v)
    return out


def closure_exprs(fn: ast.AST, e: ast.AST) -> list[ast.AST]:
    """e plus, transitively, the expressions the local names read in it are bound to in fn"""
    out, seen, todo = [e], set(), [e]
    while todo:
        x = todo.pop()
        for n in ast.walk(x):
            if isinstance(n, ast.Name) and isinstance(n.ctx, ast.Load) and n.id not in seen:
                seen.add(n.id)
                for v in local_defs(fn, n.id):
                    out.append(v)
                    todo.append(v)
    return out


def params(fn: ast.AST) -> list[str]:
    a = fn.args  # type: ignore[attr-defined]
    return [x.arg for x in a.posonlyargs + a.args]


def add_leaves(e: ast.AST) -> list[ast.AST]:
    """operands of a `+` chain"""
    if isinstance(e, ast.BinOp) and isinstance(e.op, ast.Add):
        return add_leaves(e.left) + add_leaves(e.right)
    return [e]
